#!/usr/bin/env python3
"""Writes /verif/MANIFEST.json from the tables below (single source of truth for the claimed /
not-applicable split). Run after adding or removing a check."""
import json, os, subprocess

HERE = os.path.dirname(os.path.dirname(os.path.abspath(__file__)))

NA = {
    "C01": "parse_text is a pure function of one string: no state between calls, no I/O, no clock, no entropy, no fault clause - nothing for a scheduler or fault injector to own; deciding it would be input generation under a simulator's name.",
    "C02": "Argument binding is a pure function of (argument template, variable map) computed in one pass by expand_by_wrapper; the history in its quantifier is only how the map came to be; no schedule, I/O or failure is involved.",
    "C06": "Truthiness and and/or/group evaluation is a pure function of a token list; the four consumers call the same function; no state, I/O, entropy or fault.",
    "C08": "Totality and per-line error reporting of the parser without includes is a pure function of the text (the include/file part of parsing, which does meet I/O, is decided under C14).",
    "C09": "Same arguments through a wrapper as directly compares two pure evaluations of the same values; the re-serialisation in eval.rs depends on the characters of the values only.",
    "C16": "String, comparison and arithmetic commands are stateless functions of their arguments.",
    "C17": "Encode/decode round trips are stateless functions of their input (the intermediate handles are created and consumed inside one expression; nothing can interleave or fail between the halves).",
}

# id -> (level, level text, level note, technique, design ref)
CLAIMED = {
    "C03": ("exploration",
            "Seeded simulation of the runner against an abstract fetch/execute machine: every command is a scripted peer that may answer continue/goto/error/crash/exit at any visit; each invocation (name, arguments, full variable map) and the end of the run (Ok/Err, failing line and source, final variables) are compared online. Sampling, not enumeration: a clean batch is evidence, not proof.",
            "Trusted: the abstract machine (written from the statement), the benign argument subset, the parser on that subset. Stubbed: every command (by design).",
            "deterministic simulation: seeded programs + scripted command results (error/crash/exit injection) vs reference machine, online comparison, minimised replay",
            "DESIGN.md section 3 C03, Appendix D.1"),
    "C04": ("exploration",
            "Seeded history exploration with a reference model: generated well-nested if/elseif/else/while/for-in programs (every keyword in a random alias or full-name spelling, generic or specific end) run on the real SDK; branch and loop outcomes are scripted by the simulator, leaf commands are made to fail by the decorator, hash order and handle names come from the run seed; every emit (arguments and the whole variable map) and the final variables are compared with a tree-walking interpreter. Thin fault space, said plainly: no I/O and no schedule exist for this property.",
            "Trusted: the interpreter (written from the statement), benign value pool. Stubbed: emit/cnd/hfail harness commands.",
            "deterministic simulation: seeded programs, scripted branch/loop outcomes and injected command errors vs tree-walking reference interpreter, online comparison",
            "DESIGN.md section 3 C04, Appendix D.2"),
    "C05": ("exploration",
            "Same machinery as C04 plus function definitions (scoped or not), calls as statements / with output variable / in condition position, returns from any loop depth, recursion bounded by scripted conditions and repeated calls after early returns (the abandoned in-flight loop state is the fault); the interpreter has call frames, the two documented corners are unconstrained.",
            "Trusted: the interpreter with frames; call output variables are read only right after the call; runs in which a condition would read an unconstrained value are counted inconclusive, not passed.",
            "deterministic simulation: seeded call/return histories (early return, recursion, re-call) and injected command errors vs reference interpreter with frames",
            "DESIGN.md section 3 C05, Appendix D.2"),
    "C07": ("exploration",
            "Seeded scripts (arbitrary text; or a handle/file-building prelude followed by library command lines with typed and untyped argument pools) run against the whole SDK minus the blocking commands, with the embedder-supplied out/err writers failing, short or interrupted at seed-chosen calls, inside worker processes so that an abort is attributed to its run; the oracle is survival: run_script returns under catch_unwind, the process lives, no non-loop command exceeds the nested step bound, a loop-free run finishes within the step budget. Honest note: most of this property is robustness to arguments, which is input generation; the simulator's own contribution is the writer faults, the handle histories, the deterministic step budget, abort attribution and exact replay. Three known findings (include cycle, alias cycle, join_path on a value with a line break) are listed and kept out of the main stream.",
            "Trusted: the classification 'loops at depth 0' read off the event log (a budget hit there is inconclusive); allocation-proportional arguments are capped at 1e5; machine-reading commands have their successful output replaced by constants.",
            "deterministic simulation: seeded command histories with stream-write fault injection, dangling handles, step-budget liveness bound and process-level abort attribution",
            "DESIGN.md section 3 C07"),
    "C10": ("exploration",
            "Seeded programs over the real SDK in which an error is raised at arbitrary instructions: by failing commands, by the decorator failing an arbitrary leaf command (buggify) and by failing an inner command of a script-implemented command; exit_on_error is toggled mid-script and last-error probes are placed at random later points; text, file and included-file configurations. The oracle is the decorator's own record of every depth-0 Error (message, instruction, source line and file): handler arguments, output variable 'false', continuation at the next instruction, probe answers (latest error wins) and the fatal failure carrying message and line are checked against it.",
            "Trusted: the decorator's classification of depth-0 instructions and handler invocations; the (line, source) tags of parsed instructions (C14 checks those). Flow-control and condition commands are never fault points.",
            "deterministic simulation: error injection at arbitrary instructions and nested invocations (buggify), recorded ground truth vs last-error queries / run result",
            "DESIGN.md section 3 C10"),
    "C11": ("exploration",
            "Seeded operation histories over the variable and scope-stack commands, one run_instruction call per operation on harness-owned state; after every step the output class and the entire variable map are compared with a map plus a stack of maps. The faults are refused operations (pop of an empty stack must change nothing, --copy of undefined or repeated names, missing arguments) and the hash order of every map involved. Thin fault space, said plainly.",
            "Trusted: the model table of DESIGN Appendix D.3; success output of push/pop unconstrained; a name undefined when copied on pop becomes unconstrained (as the property states).",
            "deterministic simulation: seeded operation histories with refused operations vs map + stack-of-maps model, full state comparison after every step",
            "DESIGN.md section 3 C11, Appendix D.3"),
    "C15": ("exploration",
            "Seeded histories against the public Commands API (stub commands over a small universe in which names collide with other commands' aliases) and against the script-level alias/unalias/remove_command/is_command_defined/function-definition commands; after every step the answer and both public tables are compared in full with a name table + alias table model and no alias may dangle. Faults: refused registrations and removals, hash order. Thin fault space, said plainly.",
            "Trusted: the two-table model of Appendix D.5; two script-level corners the statement does not settle re-synchronise the model from the real tables (invariants still checked).",
            "deterministic simulation: seeded registration/removal histories with refused operations vs two-table reference model, full table equality after every step",
            "DESIGN.md section 3 C15, Appendix D.5"),
    "C12": ("exploration",
            "Seeded operation histories over arrays, maps and sets behind handles with dangling, never-existing, look-alike and wrong-kind handles as the faults, plus an inner command of a script-implemented operation made to fail by the decorator; after every step every live collection is re-read in full through public commands and compared with a Vec/BTreeMap/BTreeSet model, and the handle table size with the live count. Thin fault space, said plainly.",
            "Trusted: the model table of Appendix D.4; order of map_keys/set_to_array unconstrained; after an injected inner failure one half-built result collection is tolerated in the handle table.",
            "deterministic simulation: seeded operation histories with dangling/wrong-kind handles and injected inner command errors vs per-handle reference collections, full re-read after every step",
            "DESIGN.md section 3 C12, Appendix D.4"),
    "C13": ("fault_enumeration",
            "Per sampled program the halt flag is raised at EVERY depth-0 instruction boundary of the (300-step-bounded) unhalted run and at every applicable position inside the in-flight instruction (before the command body, after it, during its on_error handler, from a nested invocation); each halted execution must be the exact prefix of the unhalted one: same events, no further top-level instruction started, Ok result, variables as after the in-flight instruction. Exhaustive in the halt position per program, sampled over programs. A quarter of the runs instead raise the flag from a second thread under shuttle's seeded random / PCT scheduler (exploration).",
            "Trusted: the decorator's depth bookkeeping (depth 0 = runner's own instruction, handler invocation classified by following an Error end), shuttle's serialisation of the two threads, handle names normalised by order of first appearance when executions are compared. Stubbed: harness commands, OS scheduler (mode B).",
            "deterministic simulation: fault enumeration of the halt instant over all instruction boundaries + seeded thread schedules (shuttle), prefix-refinement oracle against the unhalted run",
            "DESIGN.md section 3 C13"),
    "C14": ("exploration",
            "Seeded include trees written to a jailed real file system and parsed/run by the real parser, pre-processor and runner: a textual inliner is the reference for the (file, line) tag of every instruction, the tree is run differentially against the pasted text (same instruction indexes), planted failing commands must report their own file and line through the last-error queries, and file-level faults (an included file missing, a directory, not UTF-8, or holding a malformed line) must fail the whole parse naming that file or line.",
            "Trusted: the inliner, canonicalisation for comparing file identities, the pasted-text run as the behavioural reference (it exercises the same runner). Include cycles are out of scope here.",
            "deterministic simulation: seeded include trees on a jailed real file system with missing/odd/malformed included files vs textual-inliner model and differential run of the pasted text",
            "DESIGN.md section 3 C14"),
    "C18": ("exploration",
            "Seeded operation histories against the real kernel file system on a private tree inside a chroot jail: every operation is a real syscall sequence whose outcome depends on what earlier operations left behind (a path that was a file is now a directory, parents missing, invalid UTF-8 content), plus a genuine torn write produced by RLIMIT_FSIZE; after every step the whole tree (names, kinds, contents) is walked and compared with a file-tree model, which decides 'read what was written', 'mv = cp + rm' and 'a failing operation leaves the tree unchanged'.",
            "Trusted: the model table of Appendix D.6 including its explicitly unconstrained corners (model adopts the disk state there); tmpfs as the file system; EIO-class faults are not injected (no seam without changing /repo).",
            "deterministic simulation: seeded file-operation histories on a jailed real file system with path-shaped faults and a kernel-produced torn write vs file-tree reference model, full tree comparison after every step",
            "DESIGN.md section 3 C18, Appendix D.6"),
    "C19": ("exploration",
            "Seeded scripts invoke every script-implemented SDK command (discovered from the registry) with valid, short, wrong-kind and special-character argument lists, at top level, in loops, in a function and inside each other, many times in a row, in a caller context of 10-20 variables; the decorator fails inner commands so that each line of each script is an error exit. A before/after frame around every such invocation (at any depth) requires: caller variables unchanged (minus what unset documents), no internal variable left, temporary argument array gone. One known finding (caller variable under the command's own scope prefix) is listed in known_findings.json and kept out of the main stream.",
            "Trusted: the frame taken by the decorator at Start/End (the output variable is assigned by the caller after End, hence outside the frame). Internal temporaries other than the argument array are outside the statement and only counted. Flow-control commands are never fault points.",
            "deterministic simulation: error injection on every inner line of script-implemented commands (nested buggify) with before/after frame oracle on variables and handle table",
            "DESIGN.md section 3 C19, Appendix D.7"),
    "C20": ("exploration",
            "Differential simulation across the process boundary: seeded scripts are handed to the real duck executable (subprocess, clean environment, private cwd) in every invocation form, with the script file sometimes missing, a directory or not UTF-8, and compared with the in-process library run on the same directory: exit status, byte-equal stdout including the 'Error:' message, and the lint verdict (accepted exactly when it parses and all labels/commands/outputs are lower-case, never running the script). Modest: no schedule is involved.",
            "Trusted: the in-process library run as the reference (the statement defines the CLI relative to it). Scripts avoid file-system/process/network commands and hash-order-dependent output.",
            "deterministic simulation: seeded scripts and script-file faults through the real executable as a subprocess vs in-process library reference (differential)",
            "DESIGN.md section 3 C20"),
}

NOT_YET = {k: "applicable and planned (DESIGN.md section 3) but its check is not built yet; not claimed until it is" for k in
           ["C04", "C05", "C07", "C10", "C11", "C12", "C13", "C14", "C15", "C18", "C19", "C20"] if k not in CLAIMED}

def main():
    checks = []
    for pid in sorted(CLAIMED):
        level, text, note, technique, ref = CLAIMED[pid]
        checks.append({
            "property_id": pid,
            "quick_cmd": f"bin/check {pid} quick",
            "thorough_cmd": f"bin/check {pid} thorough",
            "evidence_file": f"/verif/evidence/{pid}.json",
            "replay_cmd_template": "bin/replay {path}",
            "engine": "dsim",
            "level_claimed": {"category": level, "text": text, "design_ref": ref},
            "level_note": note,
            "technique": technique,
        })
    na = [{"property_id": k, "reason": v} for k, v in sorted(NA.items())]
    for k, v in sorted(NOT_YET.items()):
        na.append({"property_id": k, "reason": v})
    manifest = {
        "version": 1,
        "setup_cmd": "bin/setup",
        "hooks": {
            "guard": "duckscript_verif",
            "enable": "none needed: every seam used is in the public API (command registry, Env writers and halt flag) or below the process (getrandom symbol, chroot, rlimits); the cfg name is reserved",
            "baseline_off_cmd": "cd /repo && cargo test --workspace --no-fail-fast --offline",
            "source_commits": [],
            "add_only": True,
        },
        "engines": [{
            "name": "dsim",
            "path": "/verif/sim",
            "serves_properties": sorted(CLAIMED),
            "kind_free_text": "deterministic simulator with fault injection: one seed -> programs/operation histories, fault plan, hash-iteration order (getrandom seam), thread schedule (shuttle, C13); worker processes in chroot jails; reference-model oracles compared online; greedy minimiser; exact replay files",
        }],
        "checks": checks,
        "not_applicable": na,
        "notes": "exit 0 held / 1 VIOLATION / 2 harness error. VERIF_SEED (default 1) decides every run. Known findings: /verif/known_findings.json. See DESIGN.md.",
    }
    with open(os.path.join(HERE, "MANIFEST.json"), "w") as f:
        json.dump(manifest, f, indent=1)
        f.write("\n")
    try:
        import jsonschema
        schema = json.load(open("/root/.vp/MANIFEST.schema.json"))
        jsonschema.validate(manifest, schema)
        print("MANIFEST.json valid;", len(checks), "checks,", len(na), "not applicable")
    except ImportError:
        print("MANIFEST.json written (jsonschema not available to validate)")

if __name__ == "__main__":
    main()
