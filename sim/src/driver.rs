//! Parent process: orchestrates worker processes, aggregates, minimises, replays,
//! matches known findings, writes evidence.

use crate::prop::Prop;
use crate::rng::{sub_seed, Rng};
use serde_json::{json, Value};
use std::collections::{BTreeMap, BTreeSet, VecDeque};
use std::io::{BufRead, BufReader, Write};
use std::os::unix::process::ExitStatusExt;
use std::path::{Path, PathBuf};
use std::process::{Child, ChildStdin, ChildStdout, Command, Stdio};
use std::sync::{Arc, Mutex};
use std::time::Instant;

/// root of the verification tree this binary belongs to (<root>/sim/target/<profile>/dsim), so that a
/// snapshot started with `vp run` writes its evidence and replays into the snapshot, not into /verif
pub fn verif_dir() -> String {
    if let Ok(d) = std::env::var("DSIM_VERIF_DIR") {
        return d;
    }
    if let Ok(exe) = std::env::current_exe() {
        if let Some(root) = exe.ancestors().nth(4) {
            if root.join("properties.jsonl").exists() {
                return root.to_string_lossy().to_string();
            }
        }
    }
    "/verif".to_string()
}

#[derive(Default)]
pub struct Collected {
    pub results: Vec<Value>,
    pub n: u64,
    pub steps: u64,
    pub inconclusive: u64,
    pub fired: BTreeMap<String, u64>,
    pub probes: BTreeMap<String, u64>,
    pub hashes: BTreeSet<u64>,
    pub digests: BTreeMap<u64, u64>,
    /// (run index or case id, description)
    pub aborts: Vec<(u64, String)>,
    pub hangs: Vec<(u64, Value, String)>,
    pub harness_errors: Vec<String>,
    pub chroot_ok: bool,
    pub chroot_seen: bool,
    pub fail_count: usize,
}

pub struct Pool {
    pub prop: &'static dyn Prop,
    pub workers: usize,
    pub duck: Option<PathBuf>,
    pub avoid: Vec<String>,
}

/// runs one worker process serves before it is replaced
pub const WORKER_RUNS: u64 = 12_000;

struct WorkerProc {
    child: Child,
    stdin: ChildStdin,
    stdout: BufReader<ChildStdout>,
}

fn jail_dir(w: usize) -> PathBuf {
    PathBuf::from(format!("/dev/shm/dsim.{}.{}", std::process::id(), w))
}

pub fn clean_stale_jails() {
    if let Ok(rd) = std::fs::read_dir("/dev/shm") {
        for e in rd.flatten() {
            let name = e.file_name().to_string_lossy().to_string();
            if let Some(rest) = name.strip_prefix("dsim.") {
                let pid = rest.split('.').next().unwrap_or("");
                if !pid.is_empty() && !Path::new(&format!("/proc/{}", pid)).exists() {
                    let _ = std::fs::remove_dir_all(e.path());
                }
            }
        }
    }
}

pub fn clean_own_jails(workers: usize) {
    for w in 0..workers + 4 {
        let _ = std::fs::remove_dir_all(jail_dir(w));
    }
    for w in 100..104 {
        let _ = std::fs::remove_dir_all(jail_dir(w));
    }
}

impl Pool {
    fn spawn(&self, w: usize) -> std::io::Result<WorkerProc> {
        let exe = std::env::current_exe()?;
        // (a replaced worker starts on a directory of its own making)
        let _ = std::fs::remove_dir_all(jail_dir(w));
        let mut cmd = Command::new(exe);
        cmd.arg("worker")
            .arg(self.prop.id())
            .arg("--id")
            .arg(w.to_string())
            .arg("--jail")
            .arg(jail_dir(w));
        if let Some(d) = &self.duck {
            cmd.arg("--duck").arg(d);
        }
        if !self.avoid.is_empty() {
            cmd.arg("--avoid").arg(self.avoid.join(","));
        }
        cmd.stdin(Stdio::piped())
            .stdout(Stdio::piped())
            .stderr(Stdio::null());
        let mut child = cmd.spawn()?;
        let stdin = child.stdin.take().unwrap();
        let stdout = BufReader::new(child.stdout.take().unwrap());
        Ok(WorkerProc {
            child,
            stdin,
            stdout,
        })
    }

    /// Run all tasks on the pool. `stop_after_fails`: stop handing out tasks once that many
    /// failing results were collected (tasks in flight are completed).
    pub fn run_tasks(&self, tasks: Vec<Value>, stop_after_fails: usize) -> Collected {
        let queue = Arc::new(Mutex::new(tasks.into_iter().collect::<VecDeque<Value>>()));
        let collected = Arc::new(Mutex::new(Collected::default()));
        let n_workers = self.workers.max(1);
        std::thread::scope(|scope| {
            for w in 0..n_workers {
                let queue = queue.clone();
                let collected = collected.clone();
                scope.spawn(move || {
                    let mut respawns = 0;
                    let mut proc_: Option<WorkerProc> = None;
                    // a worker process serves a bounded number of tasks and is then replaced by a fresh one (fresh
                    // process, fresh jail directory): no run depends on what tens of thousands of earlier runs left
                    // in the process or in the kernel's bookkeeping of its directory
                    let mut served = 0u64;
                    loop {
                        let task = {
                            let mut q = queue.lock().unwrap();
                            let c = collected.lock().unwrap();
                            if c.fail_count >= stop_after_fails || !c.harness_errors.is_empty() {
                                None
                            } else {
                                q.pop_front()
                            }
                        };
                        let task = match task {
                            Some(t) => t,
                            None => break,
                        };
                        if proc_.is_none() {
                            match self.spawn(w) {
                                Ok(mut p) => {
                                    let mut hello = String::new();
                                    let _ = p.stdout.read_line(&mut hello);
                                    if let Some(rest) = hello.strip_prefix("H ") {
                                        if let Ok(v) = serde_json::from_str::<Value>(rest.trim()) {
                                            let mut c = collected.lock().unwrap();
                                            let ok = v["chroot"].as_bool().unwrap_or(false);
                                            c.chroot_ok = if c.chroot_seen { c.chroot_ok && ok } else { ok };
                                            c.chroot_seen = true;
                                        }
                                    }
                                    proc_ = Some(p);
                                }
                                Err(e) => {
                                    collected
                                        .lock()
                                        .unwrap()
                                        .harness_errors
                                        .push(format!("cannot spawn worker: {}", e));
                                    break;
                                }
                            }
                        }
                        let p = proc_.as_mut().unwrap();
                        let sent = writeln!(p.stdin, "{}", task).and_then(|_| p.stdin.flush());
                        let mut last_begun: Option<u64> = None;
                        let mut done = false;
                        let mut harness_exit = false;
                        if sent.is_ok() {
                            let mut line = String::new();
                            loop {
                                line.clear();
                                match p.stdout.read_line(&mut line) {
                                    Ok(0) | Err(_) => break,
                                    Ok(_) => {}
                                }
                                let l = line.trim_end();
                                if l == "D" {
                                    done = true;
                                    break;
                                }
                                let (tag, rest) = l.split_at(l.len().min(2));
                                let mut c = collected.lock().unwrap();
                                match tag {
                                    "B " => last_begun = rest.trim().parse().ok(),
                                    "R " => {
                                        if let Ok(v) = serde_json::from_str::<Value>(rest) {
                                            if v["verdict"]["v"] == "fail" {
                                                c.fail_count += 1;
                                            }
                                            c.results.push(v);
                                        }
                                    }
                                    "G " => {
                                        let mut it = rest.split_whitespace();
                                        if let (Some(i), Some(d)) = (it.next(), it.next()) {
                                            if let (Ok(i), Ok(d)) = (i.parse(), d.parse()) {
                                                c.digests.insert(i, d);
                                            }
                                        }
                                    }
                                    "S " => {
                                        if let Ok(v) = serde_json::from_str::<Value>(rest) {
                                            c.n += v["n"].as_u64().unwrap_or(0);
                                            c.steps += v["steps"].as_u64().unwrap_or(0);
                                            c.inconclusive += v["inconclusive"].as_u64().unwrap_or(0);
                                            for key in ["fired", "probes"] {
                                                if let Some(m) = v[key].as_object() {
                                                    for (k, val) in m {
                                                        let tgt = if key == "fired" { &mut c.fired } else { &mut c.probes };
                                                        *tgt.entry(k.clone()).or_insert(0) += val.as_u64().unwrap_or(0);
                                                    }
                                                }
                                            }
                                            if let Some(hs) = v["hashes"].as_array() {
                                                for h in hs {
                                                    if let Some(h) = h.as_u64() {
                                                        c.hashes.insert(h);
                                                    }
                                                }
                                            }
                                        }
                                    }
                                    "X " => {
                                        c.harness_errors.push(format!("harness panic in worker: {}", rest));
                                        harness_exit = true;
                                    }
                                    "T " => {
                                        if let Ok(v) = serde_json::from_str::<Value>(rest) {
                                            let i = v["i"].as_u64().unwrap_or(0);
                                            let note = format!("in flight: {}; {} s of wall-clock, {} s of CPU in this run", v["in_flight"].as_str().unwrap_or("?"), v["wall_s"].as_u64().unwrap_or(0), v["cpu_s"].as_u64().unwrap_or(0));
                                            c.hangs.push((i, v["case"].clone(), note));
                                            c.fail_count += 1;
                                        }
                                    }
                                    _ => {}
                                }
                            }
                        }
                        if done {
                            served += if task["t"] == "gen" { task["to"].as_u64().unwrap_or(0).saturating_sub(task["from"].as_u64().unwrap_or(0)) } else { 1 };
                            if served >= WORKER_RUNS {
                                if let Some(mut p) = proc_.take() {
                                    drop(p.stdin);
                                    let _ = p.child.wait();
                                }
                                served = 0;
                            }
                            continue;
                        }
                        // the worker died (or ended itself after a hang) before finishing the task
                        let mut p = proc_.take().unwrap();
                        drop(p.stdin);
                        let status = p.child.wait().ok();
                        if harness_exit {
                            break;
                        }
                        let hung = status.map(|s| s.code() == Some(3)).unwrap_or(false);
                        if !hung {
                            let desc = match status {
                                Some(s) => match s.signal() {
                                    Some(sig) => format!("signal {}", sig),
                                    None => format!("exit {:?}", s.code()),
                                },
                                None => "unknown".to_string(),
                            };
                            let mut c = collected.lock().unwrap();
                            match last_begun {
                                Some(i) => {
                                    c.aborts.push((i, desc));
                                    c.fail_count += 1;
                                }
                                None => c.harness_errors.push(format!("worker died before starting a run: {}", desc)),
                            }
                        }
                        // re-queue what is left of a gen chunk
                        if task["t"] == "gen" {
                            if let Some(i) = last_begun {
                                let to = task["to"].as_u64().unwrap_or(0);
                                if i + 1 < to {
                                    let mut t = task.clone();
                                    t["from"] = json!(i + 1);
                                    queue.lock().unwrap().push_front(t);
                                }
                            }
                        }
                        respawns += 1;
                        if respawns > 200 {
                            collected
                                .lock()
                                .unwrap()
                                .harness_errors
                                .push("worker respawn limit reached".to_string());
                            break;
                        }
                    }
                    if let Some(mut p) = proc_.take() {
                        drop(p.stdin);
                        let _ = p.child.wait();
                    }
                });
            }
        });
        Arc::try_unwrap(collected)
            .map(|m| m.into_inner().unwrap())
            .unwrap_or_default()
    }

    /// Execute explicit cases; returns for each the result JSON (or a synthetic abort/hang result).
    pub fn eval_cases(&self, cases: &[Value]) -> Result<Vec<Value>, String> {
        let tasks: Vec<Value> = cases
            .iter()
            .enumerate()
            .map(|(k, c)| json!({"t": "case", "id": k, "case": c}))
            .collect();
        let col = self.run_tasks(tasks, usize::MAX);
        if !col.harness_errors.is_empty() {
            return Err(col.harness_errors.join("; "));
        }
        let mut out: Vec<Value> = vec![Value::Null; cases.len()];
        for r in col.results {
            let k = r["i"].as_u64().unwrap_or(0) as usize;
            if k < out.len() {
                out[k] = r;
            }
        }
        for (k, desc) in col.aborts {
            let k = k as usize;
            if k < out.len() {
                out[k] = abort_result(k as u64, &cases[k], &desc);
            }
        }
        for (k, _, note) in col.hangs {
            let k = k as usize;
            if k < out.len() {
                out[k] = hang_result(k as u64, &cases[k], &note);
            }
        }
        Ok(out)
    }
}

pub fn abort_result(i: u64, case: &Value, desc: &str) -> Value {
    json!({"i": i, "verdict": {"v": "fail", "class": format!("abort:{}", desc), "detail": "the worker process died while executing this run"},
           "h": 0, "nt": true, "steps": 0, "digest": 0, "case": case, "log": []})
}

pub fn hang_result(i: u64, case: &Value, note: &str) -> Value {
    if note.contains(" of this line in this run]") {
        // the instruction in flight had run to completion earlier in this same run: the run loops, and what one round
        // costs depends on what the earlier rounds left behind (a directory copied into itself doubles per round).
        // Like a run that exhausts the step budget in a loop, this says nothing about any single command
        return json!({"i": i, "verdict": {"v": "inc", "reason": format!("no answer within the time limit in a run that loops; {}", note)},
               "h": 0, "nt": false, "steps": 0, "digest": 0, "case": case, "log": []});
    }
    json!({"i": i, "verdict": {"v": "fail", "class": "hang:native", "detail": format!("no answer within {} s of wall-clock and {} s of its own computing ({} s when the process was not computing); {}", crate::worker::RUN_TIMEOUT_S, crate::worker::RUN_BUSY_S, crate::worker::RUN_BLOCKED_S, note)},
           "h": 0, "nt": true, "steps": 0, "digest": 0, "case": case, "log": []})
}

pub fn class_of(r: &Value) -> Option<String> {
    if r["verdict"]["v"] == "fail" {
        r["verdict"]["class"].as_str().map(|s| s.to_string())
    } else {
        None
    }
}

// ------------------------------------------------------------------ known findings

#[derive(Clone, Debug)]
pub struct Known {
    pub property: String,
    pub id: String,
    pub status: String,
    pub class: String,
    pub matcher: String,
    pub witness: Option<String>,
    pub what: String,
}

pub fn load_known() -> Vec<Known> {
    let path = format!("{}/known_findings.json", verif_dir());
    let text = match std::fs::read_to_string(&path) {
        Ok(t) => t,
        Err(_) => return vec![],
    };
    let v: Value = serde_json::from_str(&text).unwrap_or(Value::Null);
    let mut out = vec![];
    if let Some(arr) = v.as_array() {
        for e in arr {
            out.push(Known {
                property: e["property"].as_str().unwrap_or("").to_string(),
                id: e["id"].as_str().unwrap_or("").to_string(),
                status: e["status"].as_str().unwrap_or("").to_string(),
                class: e["class"].as_str().unwrap_or("").to_string(),
                matcher: e["matcher"].as_str().unwrap_or("").to_string(),
                witness: e["witness"].as_str().map(|s| s.to_string()),
                what: e["what"].as_str().unwrap_or("").to_string(),
            });
        }
    }
    out
}

fn class_matches(known_class: &str, class: &str) -> bool {
    known_class.is_empty() || known_class == class || (known_class.ends_with('*') && class.starts_with(&known_class[..known_class.len() - 1]))
}

pub fn match_known<'a>(prop: &dyn Prop, known: &'a [Known], r: &Value) -> Option<&'a Known> {
    let class = class_of(r)?;
    let detail = r["verdict"]["detail"].as_str().unwrap_or("");
    known.iter().find(|k| {
        k.status == "known"
            && k.property == prop.id()
            && class_matches(&k.class, &class)
            && prop.known_match(&k.matcher, &r["case"], &class, detail)
    })
}

// ------------------------------------------------------------------ minimiser

pub struct Minimised {
    pub result: Value,
    pub evals: u64,
    pub from_steps: u64,
}

pub fn minimise(pool: &Pool, known: &[Known], first: &Value, max_evals: u64) -> Result<Minimised, String> {
    let target = class_of(first).unwrap_or_default();
    let mut cur = first.clone();
    let mut evals = 0u64;
    let batch = (pool.workers * 2).max(4);
    // minimisation is a service, not part of the verdict: it also stops on a wall-clock budget (changed code can
    // make every evaluation slow), the smallest case found so far is reported
    let started = std::time::Instant::now();
    let max_wall = std::time::Duration::from_secs(if max_evals > 1000 { 900 } else { 120 });
    'outer: loop {
        let cands: Vec<Value> = pool.prop.shrink(&cur["case"]);
        if cands.is_empty() {
            break;
        }
        let mut idx = 0;
        while idx < cands.len() {
            if evals >= max_evals || started.elapsed() > max_wall {
                break 'outer;
            }
            let end = (idx + batch).min(cands.len());
            let slice = &cands[idx..end];
            let results = pool.eval_cases(slice)?;
            evals += slice.len() as u64;
            for r in results {
                if class_of(&r).as_deref() == Some(target.as_str()) && match_known(pool.prop, known, &r).is_none() {
                    cur = r;
                    continue 'outer;
                }
            }
            idx = end;
        }
        break;
    }
    Ok(Minimised {
        result: cur,
        evals,
        from_steps: first["steps"].as_u64().unwrap_or(0),
    })
}

// ------------------------------------------------------------------ check

pub struct CheckOpts {
    pub tier: String,
    pub seed: u64,
    pub runs: Option<u64>,
    pub workers: usize,
    pub duck: Option<PathBuf>,
    pub from: u64,
}

fn chunk_size(total: u64, workers: usize) -> u64 {
    let per = total / (workers as u64 * 8).max(1);
    per.clamp(16, 2048)
}

pub fn gen_tasks(seed: u64, from: u64, to: u64, chunk: u64, digests: bool, samples: u64) -> Vec<Value> {
    let mut tasks = vec![];
    let mut a = from;
    while a < to {
        let b = (a + chunk).min(to);
        tasks.push(json!({"t": "gen", "seed": seed, "from": a, "to": b, "digests": digests, "samples": samples}));
        a = b;
    }
    tasks
}

pub fn regenerate_case(prop: &dyn Prop, seed: u64, i: u64, avoid: &[String]) -> Value {
    let mut rng = Rng::new(sub_seed(seed, prop.id(), i));
    prop.generate(&mut rng, avoid)
}

pub fn write_replay(prop: &dyn Prop, seed: u64, r: &Value, min: Option<&Minimised>, name_hint: &str) -> Result<PathBuf, String> {
    let dir = format!("{}/replays", verif_dir());
    std::fs::create_dir_all(&dir).map_err(|e| e.to_string())?;
    let path = PathBuf::from(format!("{}/{}-{}-{}.json", dir, prop.id(), seed, name_hint));
    let body = json!({
        "dsim": 1,
        "property": prop.id(),
        "verif_seed": seed,
        "run_index": r["i"],
        "class": r["verdict"]["class"],
        "detail": r["verdict"]["detail"],
        "case": r["case"],
        "log_digest": r["digest"],
        "log": r["log"],
        "minimised_from": {"steps": min.map(|m| m.from_steps).unwrap_or(0)},
        "shrink_evals": min.map(|m| m.evals).unwrap_or(0),
    });
    std::fs::write(&path, serde_json::to_string_pretty(&body).unwrap()).map_err(|e| e.to_string())?;
    Ok(path)
}

/// a replay file whose violation needs the runs that preceded it in the same worker process
pub fn write_replay_with_history(prop: &dyn Prop, seed: u64, r: &Value, history: &[Value], name_hint: &str) -> Result<PathBuf, String> {
    let path = write_replay(prop, seed, r, None, name_hint)?;
    let mut body: Value = std::fs::read_to_string(&path).ok().and_then(|t| serde_json::from_str(&t).ok()).ok_or("cannot re-read the replay file")?;
    body["history"] = json!(history);
    std::fs::write(&path, serde_json::to_string_pretty(&body).unwrap()).map_err(|e| e.to_string())?;
    Ok(path)
}

pub fn check(prop: &'static dyn Prop, opts: CheckOpts) -> i32 {
    let t0 = Instant::now();
    clean_stale_jails();
    let info = prop.info();
    let all_known = load_known();
    let known: Vec<Known> = all_known.iter().filter(|k| k.property == prop.id()).cloned().collect();
    let avoid: Vec<String> = known.iter().filter(|k| k.status == "known").map(|k| k.matcher.clone()).collect();
    let pool = Pool {
        prop,
        workers: opts.workers,
        duck: opts.duck.clone(),
        avoid: avoid.clone(),
    };
    let mut exit = 0;
    let mut known_hits: BTreeMap<String, u64> = BTreeMap::new();
    let mut violations: Vec<(String, PathBuf)> = vec![];

    // 1. replay every known witness
    for k in known.iter().filter(|k| k.status == "known") {
        if let Some(w) = &k.witness {
            let path = format!("{}/{}", verif_dir(), w);
            match std::fs::read_to_string(&path).ok().and_then(|t| serde_json::from_str::<Value>(&t).ok()) {
                // (witnesses run without the avoid list: where a check goes easy on a listed shape while executing - not
                // only while generating - the witness must still show the finding)
                Some(file) => match (Pool { prop, workers: 1, duck: opts.duck.clone(), avoid: vec![] }).eval_cases(&[file["case"].clone()]) {
                    Ok(rs) => {
                        let r = &rs[0];
                        match class_of(r) {
                            Some(c) if class_matches(&k.class, &c) => {
                                println!("KNOWN-FINDING: property={} {} [{}] witness={} class={}", prop.id(), k.what, k.id, w, c);
                                *known_hits.entry(k.id.clone()).or_insert(0) += 1;
                            }
                            Some(c) => {
                                println!("note: known finding {} witness now fails with class {} (listed: {})", k.id, c, k.class);
                            }
                            None => {
                                println!("note: known finding {} no longer reproduces on this tree (witness {} passes)", k.id, w);
                            }
                        }
                    }
                    Err(e) => {
                        eprintln!("HARNESS-ERROR: {}", e);
                        clean_own_jails(opts.workers);
                        return 2;
                    }
                },
                None => {
                    eprintln!("HARNESS-ERROR: cannot read witness {}", path);
                    clean_own_jails(opts.workers);
                    return 2;
                }
            }
        }
    }

    // 2. the main stream
    let total = opts.runs.unwrap_or_else(|| prop.runs(&opts.tier));
    let from = opts.from;
    let to = from + total;
    let chunk = chunk_size(total, opts.workers);
    let col = pool.run_tasks(gen_tasks(opts.seed, from, to, chunk, false, from + 3), 24);
    if !col.harness_errors.is_empty() {
        for e in &col.harness_errors {
            eprintln!("HARNESS-ERROR: {}", e);
        }
        clean_own_jails(opts.workers);
        return 2;
    }

    // failures: explicit results + aborts + hangs
    let mut failures: Vec<Value> = col.results.iter().filter(|r| class_of(r).is_some() && !r["case"].is_null()).cloned().collect();
    for (i, desc) in &col.aborts {
        failures.push(abort_result(*i, &regenerate_case(prop, opts.seed, *i, &avoid), desc));
    }
    let mut looping_hangs = 0u64;
    for (i, case, note) in &col.hangs {
        let r = hang_result(*i, case, note);
        if class_of(&r).is_some() {
            failures.push(r);
        } else {
            looping_hangs += 1;
            println!("note: run {} gave no answer within the time limit in a run that loops (inconclusive): {}", i, note);
        }
    }
    failures.sort_by_key(|r| r["i"].as_u64().unwrap_or(0));
    let mut samples: Vec<Value> = col
        .results
        .iter()
        .filter(|r| r["verdict"]["v"] == "pass" && !r["log"].is_null())
        .take(3)
        .map(|r| json!({"run_index": r["i"], "case": r["case"], "log": r["log"], "verdict": "pass"}))
        .collect();

    let mut seen_classes: BTreeSet<String> = BTreeSet::new();
    for f in &failures {
        if let Some(k) = match_known(prop, &known, f) {
            *known_hits.entry(k.id.clone()).or_insert(0) += 1;
            continue;
        }
        let class = class_of(f).unwrap_or_default();
        if !seen_classes.insert(class.clone()) || seen_classes.len() > 3 {
            continue;
        }
        // minimise, then confirm by replaying in a fresh worker
        let min = match minimise(&pool, &known, f, if opts.tier == "quick" { 600 } else { 2000 }) {
            Ok(m) => m,
            Err(e) => {
                eprintln!("HARNESS-ERROR: minimiser: {}", e);
                clean_own_jails(opts.workers);
                return 2;
            }
        };
        let confirm = match pool.eval_cases(&[min.result["case"].clone()]) {
            Ok(rs) => rs[0].clone(),
            Err(e) => {
                eprintln!("HARNESS-ERROR: replay confirmation: {}", e);
                clean_own_jails(opts.workers);
                return 2;
            }
        };
        if class_of(&confirm).as_deref() != Some(class.as_str()) || confirm["digest"] != min.result["digest"] {
            // Not reproduced alone. Before calling it a harness error: does it come back after the runs that preceded
            // it in the same worker process? Then the code under test keeps state from one run to the next (a cache
            // that is never invalidated, a table that is not reset) - a violation whose replay needs its history
            let i = f["i"].as_u64().unwrap_or(0);
            let chunk_start = from + ((i.saturating_sub(from)) / chunk.max(1)) * chunk.max(1);
            let solo = Pool { prop, workers: 1, duck: opts.duck.clone(), avoid: avoid.clone() };
            let mut found: Option<(Vec<Value>, Value)> = None;
            let mut len = 1u64;
            loop {
                let a = i.saturating_sub(len).max(chunk_start);
                let mut cases: Vec<Value> = (a..i).map(|k| regenerate_case(prop, opts.seed, k, &avoid)).collect();
                cases.push(f["case"].clone());
                let twice: Vec<Option<Value>> = (0..2).map(|_| solo.eval_cases(&cases).ok().and_then(|rs| rs.last().cloned())).collect();
                if let (Some(r1), Some(r2)) = (&twice[0], &twice[1]) {
                    if class_of(r1).as_deref() == Some(class.as_str()) && class_of(r2).as_deref() == Some(class.as_str()) && r1["digest"] == r2["digest"] {
                        cases.pop();
                        found = Some((cases, r1.clone()));
                        break;
                    }
                }
                if a == chunk_start {
                    break;
                }
                len *= 2;
            }
            if let Some((history, r)) = found {
                let mut r = r;
                r["i"] = json!(i);
                r["case"] = f["case"].clone();
                let n = history.len();
                let detail = format!("(only after the {} runs that preceded it in the same process: state that outlives a run) {}", n, r["verdict"]["detail"].as_str().unwrap_or(""));
                r["verdict"]["detail"] = json!(detail);
                match write_replay_with_history(prop, opts.seed, &r, &history, &format!("{}", i)) {
                    Ok(path) => {
                        println!("VIOLATION property={} replay={} class={} detail={}", prop.id(), path.display(), class, detail);
                        violations.push((class.clone(), path));
                        exit = 1;
                    }
                    Err(e) => {
                        eprintln!("HARNESS-ERROR: cannot write replay file: {}", e);
                        clean_own_jails(opts.workers);
                        return 2;
                    }
                }
                continue;
            }
            eprintln!(
                "HARNESS-ERROR: violation of {} (class {}, run {}) did not replay identically (class {:?}, digest {} vs {})",
                prop.id(), class, f["i"], class_of(&confirm), confirm["digest"], min.result["digest"]
            );
            let _ = write_replay(prop, opts.seed, &min.result, Some(&min), &format!("{}-nonreplayable", f["i"]));
            clean_own_jails(opts.workers);
            return 2;
        }
        match write_replay(prop, opts.seed, &min.result, Some(&min), &format!("{}", f["i"])) {
            Ok(path) => {
                println!(
                    "VIOLATION property={} replay={} class={} detail={}",
                    prop.id(),
                    path.display(),
                    class,
                    min.result["verdict"]["detail"].as_str().unwrap_or("")
                );
                violations.push((class.clone(), path));
                samples.push(json!({"run_index": f["i"], "case": min.result["case"], "verdict": min.result["verdict"]}));
                exit = 1;
            }
            Err(e) => {
                eprintln!("HARNESS-ERROR: cannot write replay: {}", e);
                clean_own_jails(opts.workers);
                return 2;
            }
        }
    }

    // 3. determinism recheck: a sample of runs executed twice more, with other worker counts and chunkings
    let recheck_n = if opts.tier == "quick" { 64.min(total) } else { 400.min(total) };
    // (a larger sample on request, for proving determinism after a new seam: DSIM_RECHECK_N=5000)
    let recheck_n = std::env::var("DSIM_RECHECK_N").ok().and_then(|v| v.parse::<u64>().ok()).map(|n| n.min(total)).unwrap_or(recheck_n);
    let mut mismatches = 0u64;
    if exit == 0 && recheck_n > 0 {
        let p1 = Pool { prop, workers: opts.workers, duck: opts.duck.clone(), avoid: avoid.clone() };
        let p2 = Pool { prop, workers: 3.min(opts.workers.max(1)), duck: opts.duck.clone(), avoid: avoid.clone() };
        let a = p1.run_tasks(gen_tasks(opts.seed, from, from + recheck_n, 8, true, 0), usize::MAX);
        let mut t2 = gen_tasks(opts.seed, from, from + recheck_n, 5, true, 0);
        t2.reverse();
        let b = p2.run_tasks(t2, usize::MAX);
        if !a.harness_errors.is_empty() || !b.harness_errors.is_empty() {
            eprintln!("HARNESS-ERROR: determinism recheck: {:?} {:?}", a.harness_errors, b.harness_errors);
            clean_own_jails(opts.workers);
            return 2;
        }
        for (i, d) in &a.digests {
            if b.digests.get(i) != Some(d) {
                mismatches += 1;
                eprintln!("HARNESS-ERROR: run {} is not deterministic (digest {} vs {:?})", i, d, b.digests.get(i));
            }
        }
        if mismatches > 0 {
            exit = 2;
        }
    }

    // 4. evidence
    let wall = t0.elapsed().as_secs_f64();
    let mut zero_probes: Vec<&str> = vec![];
    for p in info.expected_probes {
        if col.probes.get(*p).copied().unwrap_or(0) == 0 {
            zero_probes.push(p);
        }
    }
    if !zero_probes.is_empty() {
        println!("warning: reach probes at zero in this run: {:?}", zero_probes);
    }
    let evaluations = col.n + col.aborts.len() as u64 + col.hangs.len() as u64;
    let evidence = json!({
        "property_id": prop.id(),
        "tier": opts.tier,
        "seed": opts.seed,
        "level": info.level,
        "coverage": {
            "evaluations": evaluations,
            "distinct_nontrivial": col.hashes.len(),
            "rule": info.rule,
            "samples": samples,
            "exhaustive": false,
            "runs_per_hour": if wall > 0.0 { (evaluations as f64 / wall * 3600.0) as u64 } else { 0 },
            "simulated_steps": col.steps,
            "inconclusive_runs": col.inconclusive + looping_hangs,
            "faults_fired": col.fired,
            "reach_probes": col.probes,
            "reach_probes_at_zero": zero_probes,
            "real_components": info.real,
            "stub_components": info.stub,
            "known_findings_hit": known_hits,
            "determinism_recheck": {"runs": recheck_n, "mismatches": mismatches},
            "workers": opts.workers,
            "jail": if !info.needs_jail { "none" } else if col.chroot_ok { "chroot" } else { "guard-only" },
            "run_index_range": [from, to],
        },
        "assumptions": info.assumptions,
        "wall_s": wall,
        "violations": violations.len(),
    });
    let edir = format!("{}/evidence", verif_dir());
    let _ = std::fs::create_dir_all(&edir);
    let epath = format!("{}/{}.json", edir, prop.id());
    if let Err(e) = std::fs::write(&epath, serde_json::to_string_pretty(&evidence).unwrap()) {
        eprintln!("HARNESS-ERROR: cannot write evidence {}: {}", epath, e);
        exit = 2;
    }
    println!(
        "{} {} seed={} runs={} distinct_nontrivial={} steps={} inconclusive={} violations={} known_hits={:?} wall={:.1}s",
        prop.id(), opts.tier, opts.seed, evaluations, col.hashes.len(), col.steps, col.inconclusive + looping_hangs, violations.len(), known_hits, wall
    );
    clean_own_jails(opts.workers);
    exit
}

pub fn replay(prop: &'static dyn Prop, path: &str, duck: Option<PathBuf>) -> i32 {
    let file: Value = match std::fs::read_to_string(path).ok().and_then(|t| serde_json::from_str(&t).ok()) {
        Some(v) => v,
        None => {
            eprintln!("HARNESS-ERROR: cannot read {}", path);
            return 2;
        }
    };
    let pool = Pool { prop, workers: 1, duck, avoid: vec![] };
    // (a file with a history: the runs that preceded the failing one in the same process come first, in one worker)
    let mut cases: Vec<Value> = file["history"].as_array().cloned().unwrap_or_default();
    cases.push(file["case"].clone());
    let rs = match pool.eval_cases(&cases) {
        Ok(r) => r,
        Err(e) => {
            eprintln!("HARNESS-ERROR: {}", e);
            clean_own_jails(1);
            return 2;
        }
    };
    clean_own_jails(1);
    let r = rs.last().unwrap_or(&Value::Null);
    match class_of(r) {
        Some(c) => {
            let same_class = file["class"].as_str() == Some(c.as_str());
            let same_digest = file["log_digest"] == r["digest"];
            println!(
                "VIOLATION property={} replay={} class={} same_class={} same_log_digest={} detail={}",
                prop.id(), path, c, same_class, same_digest, r["verdict"]["detail"].as_str().unwrap_or("")
            );
            if let Some(log) = r["log"].as_array() {
                for e in log {
                    println!("  {}", e);
                }
            }
            1
        }
        None => {
            println!("replay of {}: not reproduced ({})", path, r["verdict"]);
            if std::env::var("DSIM_LOG").is_ok() {
                if let Some(log) = r["log"].as_array() {
                    for e in log {
                        println!("  {}", e);
                    }
                }
            }
            0
        }
    }
}
