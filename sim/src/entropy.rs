//! The entropy seam (S5): this binary defines the `getrandom` symbol, so std's
//! `RandomState` keys and the `getrandom` crate behind `rand` are both served from a
//! thread-local PRNG that every run's fresh thread seeds first.

use crate::rng::Rng;
use std::cell::RefCell;

thread_local! {
    static ENTROPY: RefCell<Rng> = RefCell::new(Rng::new(0x5EED_0000_0000_0001));
    static ENTROPY_CALLS: RefCell<u64> = RefCell::new(0);
}

pub fn seed_thread(seed: u64) {
    ENTROPY.with(|e| *e.borrow_mut() = Rng::new(seed));
    ENTROPY_CALLS.with(|c| *c.borrow_mut() = 0);
}

pub fn calls() -> u64 {
    ENTROPY_CALLS.with(|c| *c.borrow())
}

fn fill(buf: &mut [u8]) {
    let served = ENTROPY.try_with(|e| {
        let mut e = e.borrow_mut();
        let mut i = 0;
        while i < buf.len() {
            let v = e.next_u64().to_le_bytes();
            let n = (buf.len() - i).min(8);
            buf[i..i + n].copy_from_slice(&v[..n]);
            i += n;
        }
    });
    if served.is_err() {
        // thread-local storage already torn down: fixed bytes keep the run deterministic
        for (i, b) in buf.iter_mut().enumerate() {
            *b = (i as u8).wrapping_mul(31).wrapping_add(7);
        }
    }
    let _ = ENTROPY_CALLS.try_with(|c| *c.borrow_mut() += 1);
}

/// Overrides libc's getrandom(2) wrapper for the whole process.
#[no_mangle]
pub unsafe extern "C" fn getrandom(buf: *mut u8, len: usize, _flags: u32) -> isize {
    if len == 0 {
        return 0;
    }
    let slice = std::slice::from_raw_parts_mut(buf, len);
    fill(slice);
    len as isize
}
