//! Per-run simulator state (thread-local), the command-registry decorator (seam S2),
//! the stream seam (S3) and panic capture.

use crate::rng::fnv1a;
use duckscript::types::command::{
    Command, CommandBox, CommandInvocationContext, CommandResult, Commands, GoToValue,
};
use duckscript::types::env::Env;
use duckscript::types::runtime::StateValue;
use serde::{Deserialize, Serialize};
use std::cell::RefCell;
use std::collections::{BTreeMap, HashMap, HashSet};
use std::io::Write;
use std::rc::Rc;

#[derive(Serialize, Deserialize, Clone, Debug, PartialEq)]
#[serde(tag = "ev")]
pub enum Event {
    Start {
        seq: u64,
        depth: u32,
        cmd: String,
        args: Vec<String>,
        line: usize,
        src_line: Option<usize>,
        out: Option<String>,
        handler: bool,
    },
    End {
        seq: u64,
        depth: u32,
        res: String,
        out: Option<String>,
    },
    Fault {
        seq: u64,
        kind: String,
        detail: String,
    },
    Halt {
        seq: u64,
        by: String,
    },
    Write {
        seq: u64,
        stream: String,
        n: usize,
        res: String,
    },
    Op {
        seq: u64,
        op: String,
        args: Vec<String>,
        got: String,
        want: String,
    },
    Emit {
        seq: u64,
        args: Vec<String>,
    },
    Note {
        seq: u64,
        text: String,
    },
}

pub fn result_kind(r: &CommandResult) -> &'static str {
    match r {
        CommandResult::Continue(_) => "Continue",
        CommandResult::GoTo(_, GoToValue::Label(_)) => "GoToLabel",
        CommandResult::GoTo(_, GoToValue::Line(_)) => "GoToLine",
        CommandResult::Error(_) => "Error",
        CommandResult::Crash(_) => "Crash",
        CommandResult::Exit(_) => "Exit",
    }
}

pub fn result_out(r: &CommandResult) -> Option<String> {
    match r {
        CommandResult::Continue(o) | CommandResult::GoTo(o, _) | CommandResult::Exit(o) => {
            o.clone()
        }
        CommandResult::Error(m) | CommandResult::Crash(m) => Some(m.clone()),
    }
}

#[derive(Clone, Debug)]
pub struct StartInfo {
    pub seq: u64,
    pub depth: u32,
    pub name: String,
    pub args: Vec<String>,
    pub line: usize,
    pub out_var: Option<String>,
    pub src_line: Option<usize>,
    pub src: Option<String>,
    pub handler: bool,
    /// index among depth-0 non-handler starts (0-based); None for nested/handler
    pub d0_index: Option<u64>,
}

/// What a property plugs into the decorator.
pub trait Observer {
    /// Return Some(result) to answer instead of the real command (fault injection).
    fn on_start(
        &mut self,
        _core: &mut Core,
        _info: &StartInfo,
        _vars: &mut HashMap<String, String>,
        _state: &mut HashMap<String, StateValue>,
        _env: &mut Env,
    ) -> Option<CommandResult> {
        None
    }
    fn on_end(
        &mut self,
        _core: &mut Core,
        _info: &StartInfo,
        _result: &mut CommandResult,
        _vars: &mut HashMap<String, String>,
        _state: &mut HashMap<String, StateValue>,
        _env: &mut Env,
    ) {
    }
}

pub struct Core {
    pub seq: u64,
    pub depth: u32,
    pub log: Vec<Event>,
    pub steps: u64,
    pub budget: u64,
    pub budget_hit: bool,
    /// bytes of command outputs and stream writes so far; beyond `byte_budget` the run is stopped like on the step
    /// budget (a loop whose values or output grow without bound)
    pub bytes: u64,
    pub byte_budget: u64,
    pub byte_budget_hit: bool,
    pub d0_starts: u64,
    /// how often each top-level instruction index has been started in this run
    pub d0_line_starts: HashMap<usize, u32>,
    pub last_d0_error: bool,
    pub handler_name: Option<String>,
    pub fired: BTreeMap<String, u64>,
    pub probes: BTreeMap<String, u64>,
    pub violation: Option<(String, String)>,
    pub wrapped: HashSet<String>,
    pub registry_len: usize,
    /// commands whose outputs read the machine (time, pid, host...) : logged as a length class
    pub redact: HashSet<String>,
    /// called (with no borrow held) at every decorated invocation and stream write
    /// no events are recorded (very long runs); counters, depth tracking, hooks and the observer still work
    pub quiet: bool,
    /// how the embedder's Env is built for this run (consulted by the run helpers): without writers at all
    /// (`Env::new(None, None, halt)`), or with writers whose flush fails
    pub env_no_writers: bool,
    pub env_flush_fails: bool,
    pub yield_hook: Option<fn()>,
    /// consulted before the observer: may answer instead of the real command (workload-level fault plan)
    pub pre_hook: Option<fn(&mut Core, &StartInfo) -> Option<CommandResult>>,
    /// max nested invocations seen inside one depth-0 invocation
    pub nested_in_current: u64,
    pub max_nested: u64,
    pub max_nested_cmd: String,
    pub current_d0_cmd: String,
}

impl Core {
    pub fn new() -> Core {
        Core {
            seq: 0,
            depth: 0,
            log: Vec::new(),
            steps: 0,
            budget: 20_000,
            budget_hit: false,
            bytes: 0,
            byte_budget: u64::MAX,
            byte_budget_hit: false,
            d0_starts: 0,
            d0_line_starts: HashMap::new(),
            last_d0_error: false,
            handler_name: None,
            fired: BTreeMap::new(),
            probes: BTreeMap::new(),
            violation: None,
            wrapped: HashSet::new(),
            registry_len: 0,
            redact: HashSet::new(),
            quiet: false,
            env_no_writers: false,
            env_flush_fails: false,
            yield_hook: None,
            pre_hook: None,
            nested_in_current: 0,
            max_nested: 0,
            max_nested_cmd: String::new(),
            current_d0_cmd: String::new(),
        }
    }
    pub fn next_seq(&mut self) -> u64 {
        self.seq += 1;
        self.seq
    }
    pub fn fire(&mut self, kind: &str, detail: &str) {
        *self.fired.entry(kind.to_string()).or_insert(0) += 1;
        let seq = self.next_seq();
        self.log.push(Event::Fault {
            seq,
            kind: kind.to_string(),
            detail: detail.to_string(),
        });
    }
    pub fn probe(&mut self, name: &str) {
        *self.probes.entry(name.to_string()).or_insert(0) += 1;
    }
    pub fn note(&mut self, text: &str) {
        let seq = self.next_seq();
        self.log.push(Event::Note {
            seq,
            text: text.to_string(),
        });
    }
    /// record the first violation only (the first observable divergence)
    pub fn violate(&mut self, class: &str, detail: String) {
        if self.violation.is_none() {
            self.violation = Some((class.to_string(), detail));
        }
    }
}

pub struct Sim {
    pub core: Core,
    pub observer: Option<Box<dyn Observer>>,
}

thread_local! {
    pub static SIM: RefCell<Sim> = RefCell::new(Sim { core: Core::new(), observer: None });
    static LAST_PANIC: RefCell<Option<String>> = RefCell::new(None);
}

thread_local! {
    static REDACT_PREFIX: RefCell<Option<String>> = RefCell::new(None);
}

pub fn set_redact_prefix(p: Option<String>) {
    REDACT_PREFIX.with(|r| *r.borrow_mut() = p);
}

pub fn redact_prefix() -> Option<String> {
    REDACT_PREFIX.with(|r| r.borrow().clone())
}

pub fn reset(observer: Option<Box<dyn Observer>>) {
    SIM.with(|s| {
        let mut s = s.borrow_mut();
        s.core = Core::new();
        s.observer = observer;
    });
}

pub fn with_core<R>(f: impl FnOnce(&mut Core) -> R) -> R {
    SIM.with(|s| f(&mut s.borrow_mut().core))
}

pub fn take_observer() -> Option<Box<dyn Observer>> {
    SIM.with(|s| s.borrow_mut().observer.take())
}

pub fn install_panic_hook() {
    std::panic::set_hook(Box::new(|info| {
        let msg = if let Some(s) = info.payload().downcast_ref::<&str>() {
            s.to_string()
        } else if let Some(s) = info.payload().downcast_ref::<String>() {
            s.clone()
        } else {
            "<non-string panic>".to_string()
        };
        let loc = match info.location() {
            Some(l) => format!("{}:{}", l.file(), l.line()),
            None => "?".to_string(),
        };
        let _ = LAST_PANIC.try_with(|p| *p.borrow_mut() = Some(format!("{} @ {}", msg, loc)));
    }));
}

pub fn take_panic() -> Option<String> {
    LAST_PANIC.with(|p| p.borrow_mut().take())
}

/// panic location only ("file:line"), used as the violation class for panics
pub fn panic_site(p: &str) -> String {
    match p.rfind(" @ ") {
        Some(i) => {
            let loc = &p[i + 3..];
            // strip the absolute prefix up to the crate directory
            for marker in ["duckscript_sdk/", "duckscript/src", "duckscript_cli/"] {
                if let Some(j) = loc.find(marker) {
                    return loc[j..].to_string();
                }
            }
            if let Some(j) = loc.find("/registry/src/") {
                let rest = &loc[j + 14..];
                if let Some(k) = rest.find('/') {
                    return rest[k + 1..].to_string();
                }
            }
            if let Some(j) = loc.find("/library/") {
                return loc[j + 1..].to_string();
            }
            loc.to_string()
        }
        None => "?".to_string(),
    }
}

// ---------------------------------------------------------------- decorator

#[derive(Clone)]
pub struct Wrapped {
    inner: CommandBox,
}

/// What the run thread is doing right now, for the hang report of the watchdog (which runs on another thread):
/// the command in flight with its arguments, or a phase of the harness itself.
pub static IN_FLIGHT: std::sync::Mutex<String> = std::sync::Mutex::new(String::new());

pub fn phase(what: &str) {
    if let Ok(mut g) = IN_FLIGHT.lock() {
        g.clear();
        g.push_str(what);
    }
}

pub fn in_flight() -> String {
    IN_FLIGHT.lock().map(|g| g.clone()).unwrap_or_default()
}

impl Command for Wrapped {
    fn name(&self) -> String {
        self.inner.name()
    }
    fn aliases(&self) -> Vec<String> {
        self.inner.aliases()
    }
    fn help(&self) -> String {
        self.inner.help()
    }
    fn clone_and_box(&self) -> Box<dyn Command> {
        Box::new(self.clone())
    }
    fn run(&self, context: CommandInvocationContext) -> CommandResult {
        let CommandInvocationContext {
            arguments,
            state,
            variables,
            output_variable,
            instructions,
            commands,
            line,
            env,
        } = context;
        let name = self.inner.name();
        if let Ok(mut g) = IN_FLIGHT.lock() {
            g.clear();
            g.push_str(&name);
            for a in arguments.iter().take(6) {
                g.push(' ');
                g.extend(a.chars().take(60));
            }
        }

        // ---- start
        let (info, over_budget, hook) = SIM.with(|s| {
            let mut s = s.borrow_mut();
            let core = &mut s.core;
            core.steps += 1;
            let depth = core.depth;
            let handler = depth == 0
                && core.last_d0_error
                && core.handler_name.as_deref() == Some(name.as_str());
            let mut d0_index = None;
            if depth == 0 {
                core.last_d0_error = false;
                if !handler {
                    d0_index = Some(core.d0_starts);
                    core.d0_starts += 1;
                    let n = core.d0_line_starts.entry(line).or_insert(0);
                    *n += 1;
                    if *n > 1 {
                        // (for the hang report: this line has completed before in this run - the run loops)
                        let n = *n;
                        if let Ok(mut g) = IN_FLIGHT.lock() {
                            g.push_str(&format!(" [execution #{} of this line in this run]", n));
                        }
                    }
                    core.nested_in_current = 0;
                    core.current_d0_cmd = name.clone();
                }
            } else {
                core.nested_in_current += 1;
                if core.nested_in_current > core.max_nested {
                    core.max_nested = core.nested_in_current;
                    core.max_nested_cmd = core.current_d0_cmd.clone();
                }
            }
            let (src_line, src) = if depth == 0 && !handler {
                match instructions.get(line) {
                    Some(i) => (i.meta_info.line, i.meta_info.source.clone()),
                    None => (None, None),
                }
            } else {
                (None, None)
            };
            let seq = core.next_seq();
            if !core.quiet {
                core.log.push(Event::Start {
                    seq,
                    depth,
                    cmd: name.clone(),
                    args: arguments.clone(),
                    line,
                    src_line,
                    out: output_variable.clone(),
                    handler,
                });
            }
            let mut over = core.steps > core.budget;
            if core.bytes > core.byte_budget {
                core.byte_budget_hit = true;
                over = true;
            }
            if over {
                core.budget_hit = true;
            }
            core.depth += 1;
            (
                StartInfo {
                    seq,
                    depth,
                    name: name.clone(),
                    args: arguments.clone(),
                    line,
                    out_var: output_variable.clone(),
                    src_line,
                    src,
                    handler,
                    d0_index,
                },
                over,
                core.yield_hook,
            )
        });
        if let Some(h) = hook {
            h();
        }

        let mut result = if over_budget {
            CommandResult::Crash("dsim-budget".to_string())
        } else {
            // workload fault plan, then observer, may inject
            let pre = SIM.with(|s| {
                let mut s = s.borrow_mut();
                match s.core.pre_hook {
                    Some(h) => h(&mut s.core, &info),
                    None => None,
                }
            });
            let mut obs = SIM.with(|s| s.borrow_mut().observer.take());
            // the observer always sees the start (bookkeeping); a workload-level injection takes precedence
            let injected = { let from_obs = match obs.as_mut() {
                Some(o) => SIM.with(|s| {
                    let mut s = s.borrow_mut();
                    o.on_start(&mut s.core, &info, variables, state, env)
                }),
                None => None,
            }; if pre.is_some() { pre } else { from_obs } };
            SIM.with(|s| s.borrow_mut().observer = obs);
            match injected {
                Some(r) => r,
                None => {
                    let inner_ctx = CommandInvocationContext {
                        arguments,
                        state: &mut *state,
                        variables: &mut *variables,
                        output_variable,
                        instructions,
                        commands: &mut *commands,
                        line,
                        env: &mut *env,
                    };
                    self.inner.run(inner_ctx)
                }
            }
        };

        // ---- end
        let mut obs = SIM.with(|s| s.borrow_mut().observer.take());
        if let Some(o) = obs.as_mut() {
            if !over_budget {
                SIM.with(|s| {
                    let mut s = s.borrow_mut();
                    o.on_end(&mut s.core, &info, &mut result, variables, state, env)
                });
            }
        }
        let need_wrap = SIM.with(|s| {
            let mut s = s.borrow_mut();
            s.observer = obs;
            let core = &mut s.core;
            core.depth -= 1;
            if core.depth == 0 {
                core.last_d0_error = !info.handler && matches!(result, CommandResult::Error(_));
            }
            let seq = core.next_seq();
            core.bytes += result_out(&result).map(|o| o.len() as u64).unwrap_or(0);
            let out = if core.redact.contains(&name) {
                result_out(&result).map(|o| format!("<redacted:{}>", len_class(o.len())))
            } else {
                // (very long outputs are recorded by head, length and a hash: a loop that returns ever longer values
                // must end on the step budget, not on the memory of the log)
                result_out(&result).map(|o| {
                    if o.len() > (64 << 10) {
                        let mut h: u64 = 0xcbf29ce484222325;
                        for b in o.as_bytes() {
                            h = (h ^ *b as u64).wrapping_mul(0x100000001b3);
                        }
                        let head: String = o.chars().take(256).collect();
                        format!("{}...<{} bytes, fnv {:016x}>", head, o.len(), h)
                    } else {
                        o
                    }
                })
            };
            if !core.quiet {
                core.log.push(Event::End {
                    seq,
                    depth: info.depth,
                    res: result_kind(&result).to_string(),
                    out,
                });
            }
            commands.commands.len() != core.registry_len
        });
        if need_wrap {
            rewrap(commands);
        }
        if let Some(h) = hook {
            h();
        }
        result
    }
}

fn len_class(n: usize) -> &'static str {
    match n {
        0 => "0",
        1..=9 => "1-9",
        10..=99 => "10-99",
        _ => "100+",
    }
}

/// Wrap every registered command that is not wrapped yet.
pub fn rewrap(commands: &mut Commands) {
    SIM.with(|s| {
        let mut s = s.borrow_mut();
        let core = &mut s.core;
        core.wrapped.retain(|n| commands.commands.contains_key(n));
        let mut fresh: Vec<String> = commands
            .commands
            .keys()
            .filter(|k| !core.wrapped.contains(*k))
            .cloned()
            .collect();
        fresh.sort();
        for k in fresh {
            if let Some(inner) = commands.commands.remove(&k) {
                commands
                    .commands
                    .insert(k.clone(), Box::new(Wrapped { inner }));
                core.wrapped.insert(k);
            }
        }
        core.registry_len = commands.commands.len();
        core.handler_name = commands.get("on_error").map(|c| c.name());
    });
}

pub fn decorate(commands: &mut Commands) {
    rewrap(commands);
}

// ---------------------------------------------------------------- streams

#[derive(Serialize, Deserialize, Clone, Debug, PartialEq)]
pub enum WriteFault {
    BrokenPipe,
    Interrupted,
    WouldBlock,
    Short,
    Zero,
    FlushError,
}

#[derive(Clone)]
pub struct SimWriter {
    pub stream: &'static str,
    pub buf: Rc<RefCell<Vec<u8>>>,
    pub calls: Rc<RefCell<u64>>,
    /// (write-call index, fault) ; index counts write() calls on this stream, 0-based
    pub faults: Rc<Vec<(u64, WriteFault)>>,
    /// once a BrokenPipe fired every later write fails too (a closed pipe stays closed)
    pub broken: Rc<RefCell<bool>>,
}

/// The embedder's Env for a run, as the current core settings ask for it.
pub fn embedder_env(halt: Option<std::sync::Arc<std::sync::atomic::AtomicBool>>) -> Env {
    let (none, flush) = with_core(|c| (c.env_no_writers, c.env_flush_fails));
    if none {
        return Env::new(None, None, halt);
    }
    let f = |s: &'static str| SimWriter::new(s, if flush { vec![(0, WriteFault::FlushError)] } else { vec![] });
    Env::new(Some(Box::new(f("out"))), Some(Box::new(f("err"))), halt)
}

impl SimWriter {
    pub fn new(stream: &'static str, faults: Vec<(u64, WriteFault)>) -> SimWriter {
        SimWriter {
            stream,
            buf: Rc::new(RefCell::new(Vec::new())),
            calls: Rc::new(RefCell::new(0)),
            faults: Rc::new(faults),
            broken: Rc::new(RefCell::new(false)),
        }
    }
    pub fn contents(&self) -> Vec<u8> {
        self.buf.borrow().clone()
    }
    fn log(&self, n: usize, res: &str) {
        let hook = with_core(|c| {
            let seq = c.next_seq();
            c.bytes += n as u64;
            // (a script that prints in an endless loop ends on the step budget, not on the memory of the harness:
            // beyond a million events successful writes are no longer recorded)
            if res != "ok" || c.log.len() < 1_000_000 {
                c.log.push(Event::Write {
                    seq,
                    stream: self.stream.to_string(),
                    n,
                    res: res.to_string(),
                });
            }
            if res != "ok" {
                *c.fired.entry("F7".to_string()).or_insert(0) += 1;
            }
            c.yield_hook
        });
        if let Some(h) = hook {
            h();
        }
    }
}

impl Write for SimWriter {
    fn write(&mut self, data: &[u8]) -> std::io::Result<usize> {
        let idx = {
            let mut c = self.calls.borrow_mut();
            let v = *c;
            *c += 1;
            v
        };
        if *self.broken.borrow() {
            self.log(0, "BrokenPipe");
            return Err(std::io::Error::from(std::io::ErrorKind::BrokenPipe));
        }
        let fault = self.faults.iter().find(|(i, _)| *i == idx).map(|(_, f)| f.clone());
        match fault {
            Some(WriteFault::BrokenPipe) => {
                *self.broken.borrow_mut() = true;
                self.log(0, "BrokenPipe");
                Err(std::io::Error::from(std::io::ErrorKind::BrokenPipe))
            }
            Some(WriteFault::Interrupted) => {
                self.log(0, "Interrupted");
                Err(std::io::Error::from(std::io::ErrorKind::Interrupted))
            }
            Some(WriteFault::WouldBlock) => {
                self.log(0, "WouldBlock");
                Err(std::io::Error::from(std::io::ErrorKind::WouldBlock))
            }
            Some(WriteFault::Short) if data.len() > 1 => {
                let n = data.len() / 2;
                self.buf.borrow_mut().extend_from_slice(&data[..n]);
                self.log(n, "Short");
                Ok(n)
            }
            Some(WriteFault::Zero) if !data.is_empty() => {
                self.log(0, "Zero");
                Ok(0)
            }
            _ => {
                // (same: at most 64 MiB of output are kept)
                if self.buf.borrow().len() < (64 << 20) {
                    self.buf.borrow_mut().extend_from_slice(data);
                }
                self.log(data.len(), "ok");
                Ok(data.len())
            }
        }
    }
    fn flush(&mut self) -> std::io::Result<()> {
        let idx = *self.calls.borrow();
        if self
            .faults
            .iter()
            .any(|(i, f)| *f == WriteFault::FlushError && *i == idx)
        {
            self.log(0, "FlushError");
            return Err(std::io::Error::new(std::io::ErrorKind::Other, "flush failed"));
        }
        Ok(())
    }
}

// ---------------------------------------------------------------- digests

pub fn log_digest(log: &[Event]) -> u64 {
    let text = serde_json::to_string(log).unwrap_or_default();
    fnv1a(text.as_bytes())
}

/// The abstract trace: event kinds, command names, result kinds, lines, fault kinds -
/// values erased.
pub fn abstract_trace_hash(log: &[Event]) -> u64 {
    let mut h: u64 = 0xcbf2_9ce4_8422_2325;
    let mut feed = |s: &str| {
        for b in s.as_bytes() {
            h ^= *b as u64;
            h = h.wrapping_mul(0x0000_0100_0000_01B3);
        }
        h ^= 0xff;
        h = h.wrapping_mul(0x0000_0100_0000_01B3);
    };
    for e in log {
        match e {
            Event::Start {
                depth, cmd, line, handler, ..
            } => {
                feed("S");
                feed(&depth.to_string());
                feed(cmd);
                feed(&line.to_string());
                if *handler {
                    feed("H");
                }
            }
            Event::End { res, out, .. } => {
                feed("E");
                feed(res);
                feed(if out.is_some() { "v" } else { "n" });
            }
            Event::Fault { kind, .. } => {
                feed("F");
                feed(kind);
            }
            Event::Halt { by, .. } => {
                feed("H");
                feed(by);
            }
            Event::Write { stream, res, .. } => {
                feed("W");
                feed(stream);
                feed(res);
            }
            Event::Op { op, got, want, .. } => {
                feed("O");
                feed(op);
                feed(got);
                feed(want);
            }
            Event::Emit { args, .. } => {
                feed("M");
                feed(&args.len().to_string());
            }
            Event::Note { .. } => {}
        }
    }
    h
}

pub fn count_steps(log: &[Event]) -> u64 {
    log.iter()
        .filter(|e| matches!(e, Event::Start { .. } | Event::Op { .. }))
        .count() as u64
}

// ---------------------------------------------------------------- handle normalisation

/// Replace every `handle:<20 alphanumerics>` by `handle:#<n>`, n = order of first appearance.
pub fn norm_handles(text: &str, seen: &mut Vec<String>) -> String {
    if !text.contains("handle:") {
        return text.to_string();
    }
    let mut out = String::new();
    let mut rest = text;
    while let Some(i) = rest.find("handle:") {
        out.push_str(&rest[..i]);
        let tail = &rest[i + 7..];
        let n = tail.chars().take(20).take_while(|c| c.is_ascii_alphanumeric()).count();
        if n == 20 {
            let name = &tail[..20];
            let idx = match seen.iter().position(|s| s == name) {
                Some(p) => p,
                None => {
                    seen.push(name.to_string());
                    seen.len() - 1
                }
            };
            out.push_str(&format!("handle:#{}", idx));
            rest = &tail[20..];
        } else {
            out.push_str("handle:");
            rest = tail;
        }
    }
    out.push_str(rest);
    out
}
