//! Shared executor for the operation-history properties (C11, C12, C15 level 2, C18, C19):
//! one operation = one `runner::run_instruction` call on state the harness owns, so the
//! command's output is observed directly and does not pollute the variable map under test.

use crate::props::gen;
use crate::sim::{self, Event, SimWriter};
use duckscript::runner;
use duckscript::types::command::CommandResult;
use duckscript::types::env::Env;
use duckscript::types::instruction::{Instruction, InstructionMetaInfo, InstructionType, ScriptInstruction};
use duckscript::types::runtime::{Context, StateValue};
use std::collections::HashMap;

#[derive(Clone, Debug, PartialEq)]
pub enum Out {
    Val(String),
    None,
    Error(String),
    Crash(String),
    Other(String),
}

impl Out {
    pub fn show(&self) -> String {
        match self {
            Out::Val(v) => format!("={}", v),
            Out::None => "none".to_string(),
            Out::Error(m) => format!("Error({})", m),
            Out::Crash(m) => format!("Crash({})", m),
            Out::Other(m) => format!("Other({})", m),
        }
    }
    pub fn val(&self) -> Option<&str> {
        match self {
            Out::Val(v) => Some(v.as_str()),
            _ => None,
        }
    }
    pub fn is_fail(&self) -> bool {
        matches!(self, Out::Error(_)) || self.val() == Some("false")
    }
}

/// outcome classes of DESIGN Appendix D
#[derive(Clone, Debug, PartialEq)]
pub enum Want {
    Val(String),
    None,
    True,
    False,
    /// `CommandResult::Error(_)` or the output `false`
    Fail,
    NoneOrFail,
    /// `true` or a failure
    TrueOrFail,
    FalseOrFail,
    TrueOrFalse,
    /// a fresh handle
    Handle,
    /// no constraint on the output (a panic / crash is still a violation)
    Any,
    /// value or none-or-fail
    ValOrFail(String),
    /// no output or the empty string
    NoneOrEmpty,
}

impl Want {
    pub fn matches(&self, o: &Out) -> bool {
        if matches!(o, Out::Crash(_) | Out::Other(_)) {
            return false;
        }
        match self {
            Want::Val(v) => o.val() == Some(v.as_str()),
            Want::None => *o == Out::None,
            Want::True => o.val() == Some("true"),
            Want::False => o.val() == Some("false"),
            Want::Fail => o.is_fail(),
            Want::NoneOrFail => *o == Out::None || o.is_fail(),
            Want::TrueOrFail => o.val() == Some("true") || o.is_fail(),
            Want::FalseOrFail => o.is_fail(),
            Want::TrueOrFalse => o.val() == Some("true") || o.val() == Some("false"),
            Want::Handle => o.val().map(|v| v.starts_with("handle:")).unwrap_or(false),
            Want::Any => true,
            Want::ValOrFail(v) => o.val() == Some(v.as_str()) || *o == Out::None || o.is_fail(),
            Want::NoneOrEmpty => *o == Out::None || o.val() == Some(""),
        }
    }
    pub fn show(&self) -> String {
        format!("{:?}", self)
    }
}

pub struct OpWorld {
    /// (canonical argument, spelling handed to the real command): lets a model work on canonical values while
    /// the command receives an equivalent spelling (C18: path aliases through `.`, `//`, `dir/..`)
    /// (canonical argument, spelling, which occurrence of that canonical value among the arguments)
    pub arg_rewrite: Vec<(String, String, usize)>,
    /// Some(exit): every operation is its own top-level run (`run_script`) on the context returned by the
    /// previous one - what an embedder or the REPL does; with `exit` the run ends through the exit command
    pub run_mode: Option<bool>,
    pub ctx: Context,
    pub env: Env,
    pub out: SimWriter,
    pub err: SimWriter,
    instructions: Vec<Instruction>,
}

impl OpWorld {
    pub fn new_sdk() -> OpWorld {
        let mut ctx = gen::sdk_context();
        sim::decorate(&mut ctx.commands);
        let out = SimWriter::new("out", vec![]);
        let err = SimWriter::new("err", vec![]);
        let env = Env::new(Some(Box::new(out.clone())), Some(Box::new(err.clone())), None);
        OpWorld { arg_rewrite: vec![], run_mode: None, ctx, env, out, err, instructions: vec![] }
    }
    /// a second world continuing from a clone of this one's context (what an embedder does when it keeps a
    /// returned Context and runs again on a copy): the state map is cloned shallowly, as `Context::clone` does
    pub fn fork(&self) -> OpWorld {
        let out = SimWriter::new("out", vec![]);
        let err = SimWriter::new("err", vec![]);
        let env = Env::new(Some(Box::new(out.clone())), Some(Box::new(err.clone())), None);
        OpWorld { arg_rewrite: vec![], run_mode: self.run_mode, ctx: self.ctx.clone(), env, out, err, instructions: vec![] }
    }
    /// run one command with the arguments given VERBATIM (they must be free of `$ % \\`, which the
    /// runner would interpret; the pools of the history properties are)
    pub fn run(&mut self, cmd: &str, args: &[String]) -> Out {
        if let Some(exit) = self.run_mode {
            // only arguments that survive being written into a script line verbatim (the rest of the history
            // still runs, through the direct path)
            let plain = |a: &String| a.chars().all(|c| c.is_alphanumeric() || " :_-./,".contains(c)) && !a.starts_with(' ') && !a.ends_with(' ') && !a.contains("  ");
            if args.iter().all(plain) {
                return self.run_as_script(cmd, &args_vec(args), exit);
            }
        }
        let mut si = ScriptInstruction::new();
        si.command = Some(cmd.to_string());
        let mut seen: Vec<(String, usize)> = vec![];
        let args: Vec<String> = args
            .iter()
            .map(|a| {
                let occ = match seen.iter_mut().find(|(v, _)| v == a) {
                    Some(e) => {
                        e.1 += 1;
                        e.1 - 1
                    }
                    None => {
                        seen.push((a.clone(), 1));
                        0
                    }
                };
                self.arg_rewrite.iter().find(|(c, _, k)| c == a && *k == occ).map(|(_, sp, _)| sp.clone()).unwrap_or_else(|| a.clone())
            })
            .collect();
        si.arguments = if args.is_empty() { None } else { Some(args) };
        let instruction = Instruction { meta_info: InstructionMetaInfo::new(), instruction_type: InstructionType::Script(si) };
        let (result, _) = runner::run_instruction(
            &mut self.ctx.commands,
            &mut self.ctx.variables,
            &mut self.ctx.state,
            &self.instructions,
            instruction,
            0,
            &mut self.env,
        );
        match result {
            CommandResult::Continue(Some(v)) => Out::Val(v),
            CommandResult::Continue(None) => Out::None,
            CommandResult::Error(m) => Out::Error(m),
            CommandResult::Crash(m) => Out::Crash(m),
            CommandResult::GoTo(_, _) => Out::Other("GoTo".to_string()),
            CommandResult::Exit(_) => Out::Other("Exit".to_string()),
        }
    }
    /// one operation as one top-level run on the reused context; the output is read from the variable `out`
    pub fn run_as_script(&mut self, cmd: &str, args: &[String], exit: bool) -> Out {
        fn q(v: &str) -> String {
            if v.is_empty() || v.contains(' ') { format!("\"{}\"", v) } else { v.to_string() }
        }
        let mut text = format!("out = {}", cmd);
        for a in args {
            text.push(' ');
            text.push_str(&q(a));
        }
        text.push('\n');
        if exit {
            text.push_str("exit\n");
        }
        self.run_text(&text)
    }
    /// run a script text as one top-level run on the reused context
    pub fn run_text(&mut self, text: &str) -> Out {
        let ctx = std::mem::replace(&mut self.ctx, Context::new());
        let env = Env::new(Some(Box::new(self.out.clone())), Some(Box::new(self.err.clone())), None);
        match runner::run_script(text, ctx, Some(env)) {
            Ok(mut c) => {
                let out = match c.variables.remove("out") {
                    Some(v) => Out::Val(v),
                    None => Out::None,
                };
                self.ctx = c;
                out
            }
            Err(e) => Out::Crash(format!("run failed, context lost: {}", e)),
        }
    }
    /// run, log as an Op event, compare with the wanted class; returns the output
    pub fn op(&mut self, cmd: &str, args: &[String], want: &Want, shown_args: &[String]) -> Out {
        let got = self.run(cmd, args);
        let ok = want.matches(&got);
        sim::with_core(|c| {
            let seq = c.next_seq();
            c.log.push(Event::Op { seq, op: cmd.to_string(), args: shown_args.to_vec(), got: got.show(), want: want.show() });
            if !ok {
                c.violate("output-mismatch", format!("{} {:?}: got {} / model wants {}", cmd, shown_args, got.show(), want.show()));
            }
        });
        got
    }
    pub fn handle_count(&mut self) -> usize {
        match self.ctx.state.get("handles") {
            Some(StateValue::SubState(m)) => m.len(),
            _ => 0,
        }
    }
    pub fn handles(&self) -> Option<&HashMap<String, StateValue>> {
        match self.ctx.state.get("handles") {
            Some(StateValue::SubState(m)) => Some(m),
            _ => None,
        }
    }
}

fn args_vec(a: &[String]) -> Vec<String> {
    a.to_vec()
}

pub fn s(x: &str) -> String {
    x.to_string()
}
