//! C10 - command errors are reported, positioned and survivable (or fatal when asked).
//! Ground truth comes from the decorator (which depth-0 invocation answered Error, with which
//! message, at which instruction), not from a model of messages.

use crate::prop::{Outcome, Prop, PropInfo, Verdict, WorkerEnv};
use crate::props::gen::{self, GenOpts, Program, Stmt};
use crate::rng::Rng;
use crate::sim::{self, Core, Observer, SimWriter, StartInfo};
use duckscript::runner;
use duckscript::types::command::CommandResult;
use duckscript::types::env::Env;
use duckscript::types::error::ScriptError;
use duckscript::types::runtime::StateValue;
use serde::{Deserialize, Serialize};
use serde_json::Value;
use std::collections::HashMap;

#[derive(Serialize, Deserialize, Clone, Debug, PartialEq)]
pub enum Mode {
    Text,
    File,
    /// function definitions live in an included file
    FileWithInclude,
    /// the script is handed over as text (its own lines have no file) and includes the file with the function
    /// definitions: errors then alternate between "a file" and "no file"
    TextWithInclude,
}

#[derive(Serialize, Deserialize, Clone, Debug, PartialEq)]
pub struct Case {
    pub entropy: u64,
    pub program: Program,
    pub mode: Mode,
    /// (j, k): the k-th nested invocation inside the j-th depth-0 invocation of a script-implemented command fails
    pub nested: Vec<(u32, u32)>,
}

#[derive(Clone, Debug, PartialEq)]
struct Truth {
    msg: String,
    line: String,
    src: String,
    /// false after set_error: the help fixes the message only, line and source are unconstrained
    positioned: bool,
}

thread_local! {
    /// set by run_case right before the run starts (the observer is installed earlier)
    static LAYOUT: std::cell::RefCell<Option<(String, usize, String)>> = std::cell::RefCell::new(None);
}

struct ErrObs {
    last: Option<Truth>,
    expect_next_line: Option<usize>,
    pending_false: Option<String>,
    exit_mode: bool,
    fatal: Option<Truth>,
    text_mode: bool,
    /// file modes: (path of the main file, number of instructions spliced in by the include directive at its
    /// first line, path suffix of the included file) - positions are derived from the rendering, not read back
    layout: Option<(String, usize, String)>,
    nested_plan: Vec<(u32, u32)>,
    script_d0_count: u32,
    in_script_cmd: Option<u32>,
    nested_counter: u32,
    errors_seen: u32,
    shared: std::rc::Rc<std::cell::RefCell<Shared>>,
    /// the top-level command in flight, and the error its condition command reported (if / elseif / while headers)
    d0_name: String,
    cond_error: Option<String>,
}

#[derive(Default)]
struct Shared {
    fatal: Option<Truth>,
    errors_seen: u32,
}

const PROBE_ERR: &str = "std::error::GetLastError";
const PROBE_LINE: &str = "std::error::GetLastErrorLine";
const PROBE_SRC: &str = "std::error::GetLastErrorSource";
const EXIT_ON_ERROR: &str = "std::error::SetExitOnError";
const SET_ERROR: &str = "std::error::SetError";

impl Observer for ErrObs {
    fn on_start(&mut self, core: &mut Core, info: &StartInfo, vars: &mut HashMap<String, String>, _s: &mut HashMap<String, StateValue>, _e: &mut Env) -> Option<CommandResult> {
        if info.depth == 0 && info.handler {
            // the runner hands the failing instruction's error to on_error
            if let Some(t) = &self.last {
                let want = vec![t.msg.clone(), t.line.clone(), t.src.clone()];
                if info.args != want {
                    core.violate("handler-arguments", format!("on_error received {:?}; the failing instruction answered {:?} at line {} of {:?}", info.args, t.msg, t.line, t.src));
                }
            }
            return None;
        }
        if info.depth == 0 {
            self.d0_name = info.name.clone();
            self.cond_error = None;
            if let Some(f) = &self.fatal {
                core.violate("continued-after-fatal-error", format!("exit_on_error was on and {:?} failed at line {}, yet instruction index {} ({}) was started", f.msg, f.line, info.line, info.name));
            }
            if let Some(n) = self.expect_next_line.take() {
                if info.line != n {
                    core.violate("did-not-continue-at-next-instruction", format!("after the error the run continued at instruction index {} instead of {}", info.line, n));
                }
            }
            if let Some(v) = self.pending_false.take() {
                if vars.get(&v).map(|x| x.as_str()) != Some("false") {
                    core.violate("output-not-false", format!("the failing instruction's output variable {} holds {:?} instead of \"false\"", v, vars.get(&v)));
                }
            }
            if self.text_mode && info.src_line != Some(info.line + 1) {
                core.violate("instruction-position", format!("instruction index {} carries source line {:?}", info.line, info.src_line));
            }
            if self.layout.is_none() {
                self.layout = LAYOUT.with(|l| l.borrow().clone());
            }
            if let Some((main_path, spliced, inc_suffix)) = &self.layout {
                // index 0 is the directive (if any), 1..=spliced come from the included file, the rest from main
                let (want_line, in_included) = if *spliced > 0 && info.line >= 1 && info.line <= *spliced { (info.line, true) } else if *spliced > 0 { (info.line - *spliced + 1, false) } else { (info.line + 1, false) };
                let src = info.src.clone().unwrap_or_default();
                let src_ok = if in_included { src.ends_with(inc_suffix.as_str()) } else { src == *main_path };
                if info.src_line != Some(want_line) || !src_ok {
                    core.violate("instruction-position", format!("instruction index {} carries line {:?} of {:?}; by the files written it is line {} of {}", info.line, info.src_line, info.src, want_line, if in_included { inc_suffix.as_str() } else { main_path.as_str() }));
                }
            }
            if gen::script_command_names().contains(&info.name) {
                self.in_script_cmd = Some(self.script_d0_count);
                self.script_d0_count += 1;
                self.nested_counter = 0;
            } else {
                self.in_script_cmd = None;
            }
            return None;
        }
        // nested invocation
        if let Some(j) = self.in_script_cmd {
            let k = self.nested_counter;
            self.nested_counter += 1;
            if self.nested_plan.iter().any(|(jj, kk)| *jj == j && *kk == k) {
                core.fire("F1", &format!("nested inj in script command #{} at inner invocation {} ({})", j, k, info.name));
                core.probe("error-inside-script-implemented-command");
                return Some(CommandResult::Error(format!("inj-nested-{}-{}", j, k)));
            }
        }
        None
    }
    fn on_end(&mut self, core: &mut Core, info: &StartInfo, result: &mut CommandResult, _v: &mut HashMap<String, String>, _s: &mut HashMap<String, StateValue>, _e: &mut Env) {
        if info.handler {
            return;
        }
        // a block header whose condition command reported an error has itself failed with that error
        let header = |n: &str| n == "std::flowcontrol::If" || n == "std::flowcontrol::ElseIf" || n == "std::flowcontrol::While";
        if info.depth == 1 && info.name == "cfail" && header(&self.d0_name) {
            if let CommandResult::Error(m) = result {
                self.cond_error = Some(m.clone());
                core.probe("condition-command-of-a-block-header-failed");
            }
        }
        if info.depth == 0 && header(&info.name) {
            if let Some(m) = self.cond_error.take() {
                if !matches!(result, CommandResult::Error(_)) {
                    core.violate("condition-error-lost", format!("{} at instruction index {}: its condition command reported {:?}, the block command answered {}", info.name, info.line, m, sim::result_kind(result)));
                }
            }
        }
        // exit_on_error toggles (any depth)
        if info.name == EXIT_ON_ERROR {
            // the mode follows from the ARGUMENT by the language's truth rule (empty, 0, false, no in any letter case
            // are false), not from what the command says it did; without argument it is a query
            let new = match info.args.first() {
                Some(a) => gen::truthy(a),
                None => self.exit_mode,
            };
            if let CommandResult::Continue(Some(v)) = result {
                if (v == "true") != new {
                    core.violate("exit-on-error-answer", format!("exit_on_error {:?} at instruction index {} answered {:?}; by the truth rule the mode is {}", info.args, info.line, v, new));
                }
            }
            if new != self.exit_mode {
                core.probe("exit-on-error-toggled");
            }
            self.exit_mode = new;
        }
        // trigger_error / assert_error: the error carries the first argument as its message
        if info.name == "std::error::TriggerError" || info.name == "std::test::AssertError" {
            if let (CommandResult::Error(m), Some(a)) = (&result, info.args.first()) {
                // (an injected failure carries the injector's own message)
                if m != a && !m.starts_with("inj-") {
                    core.violate("error-message", format!("{} {:?} failed with message {:?}", info.name, info.args, m));
                }
            }
        }
        // set_error replaces the last error's message (it does not go through on_error and must not touch the mode)
        if info.name == SET_ERROR {
            if let (CommandResult::Continue(_), Some(m)) = (&result, info.args.first()) {
                self.last = Some(Truth { msg: m.clone(), line: String::new(), src: String::new(), positioned: false });
                core.probe("set-error-used");
            }
        }
        // probes
        if info.depth == 0 {
            if let (Some(t), CommandResult::Continue(out)) = (&self.last, &result) {
                let want = match info.name.as_str() {
                    PROBE_ERR => Some(&t.msg),
                    PROBE_LINE if t.positioned => Some(&t.line),
                    PROBE_SRC if t.positioned => Some(&t.src),
                    _ => None,
                };
                if let Some(w) = want {
                    core.probe("probe-after-error");
                    if self.errors_seen >= 2 {
                        core.probe("two-errors-then-probe");
                    }
                    // an empty source is "no source": nothing or the empty string
                    let ok = match out {
                        Some(o) => o == w,
                        None => w.is_empty(),
                    };
                    if !ok {
                        core.violate("last-error-query", format!("{} answered {:?}; the latest error was {:?} at line {} of {:?}", info.name, out, t.msg, t.line, t.src));
                    }
                }
            }
        }
        if info.depth == 0 {
            if let CommandResult::Error(msg) = result {
                let t = Truth { msg: msg.clone(), line: info.src_line.unwrap_or(0).to_string(), src: info.src.clone().unwrap_or_default(), positioned: true };
                self.errors_seen += 1;
                self.shared.borrow_mut().errors_seen = self.errors_seen;
                if msg.contains("${") || msg.contains('"') || msg.contains('#') {
                    core.probe("message-with-special-characters");
                }
                if info.src.as_deref().map(|s| s.ends_with("fns.ds")).unwrap_or(false) {
                    core.probe("error-in-included-file");
                }
                self.last = Some(t.clone());
                if self.exit_mode {
                    self.fatal = Some(t.clone());
                    self.shared.borrow_mut().fatal = Some(t);
                    core.probe("fatal-error");
                } else {
                    self.expect_next_line = Some(info.line + 1);
                    self.pending_false = info.out_var.clone();
                }
            }
        }
    }
}

// ------------------------------------------------------------------ planting

const MESSAGES: [&str; 9] = ["m1", "two words", "oops7", "a-b_c", "\\${x0}", "say \\\"hi\\\"", "a#b", "ends with a line break\\n", "tail\\r\\n"];

fn raw_line(rng: &mut Rng, n_arrays: usize) -> String {
    let msg = if rng.chance(1, 16) {
        // a message longer than any plausible fixed buffer (1 000 - 3 500 characters; one in four 70 000)
        let n = if rng.chance(1, 4) { 7_000 } else { 100 + rng.usize(250) };
        format!("L{}", "0123456789".repeat(n))
    } else {
        let m = *rng.pick(&MESSAGES);
        if m.contains(' ') || m.contains('#') || m.contains('"') || m.contains('\\') { format!("\"{}\"", m) } else { m.to_string() }
    };
    match rng.below(17) {
        16 => format!("set_error {}", msg),
        0 | 1 => "pe = get_last_error".to_string(),
        2 | 3 => "pl = get_last_error_line".to_string(),
        4 | 5 => "ps = get_last_error_source".to_string(),
        // (without an argument it only reports the mode, which must stay what it was)
        6 if rng.chance(1, 4) => "pq = exit_on_error".to_string(),
        6 => format!("exit_on_error {}", rng.pick(&["true", "false", "false", "false", "FALSE", "No", "0", "False", "yes", "\"\""])),
        // (surplus arguments: the message is the first one)
        7 if rng.chance(1, 4) => format!("trigger_error {} surplus \"more words\"", msg),
        7 => format!("trigger_error {}", msg),
        8 => format!("x3 = trigger_error {}", msg),
        9 if rng.chance(1, 4) => format!("assert_error {} surplus", msg),
        9 => format!("assert_error {}", msg),
        10 => format!("x2 = hfail {}", msg),
        11 => "x2 = array_length nohandle".to_string(),
        12 => "x4 = array_get nohandle abc".to_string(),
        13 => {
            if n_arrays > 0 { format!("x4 = array_is_empty ${{a{}}}", rng.usize(n_arrays)) } else { "x4 = map_is_empty nohandle".to_string() }
        }
        14 => {
            if n_arrays > 0 { format!("x4 = array_contains ${{a{}}} b", rng.usize(n_arrays)) } else { "x4 = concat a b".to_string() }
        }
        _ => {
            if n_arrays > 0 { format!("x1 = array_join ${{a{}}} ,", rng.usize(n_arrays)) } else { "x1 = concat a b c".to_string() }
        }
    }
}

fn plant_block(stmts: &mut Vec<Stmt>, rng: &mut Rng, n_arrays: usize, rate: u64) {
    let mut i = 0;
    while i <= stmts.len() {
        if rng.chance(1, rate) {
            stmts.insert(i, Stmt::Raw(raw_line(rng, n_arrays)));
            i += 1;
        }
        if rng.chance(1, rate * 8) {
            // a block whose header's condition command fails (once): the header is the failing instruction
            let site = rng.below(1_000_000);
            let group: Vec<String> = match rng.below(3) {
                0 => vec![format!("while cfail {}", site), "emit in-loop".to_string(), "end".to_string()],
                1 => vec!["if false".to_string(), "emit never".to_string(), format!("elseif cfail {}", site), "emit elseif-body".to_string(), "end".to_string()],
                _ => vec![format!("if cfail {}", site), "emit if-body".to_string(), "end".to_string()],
            };
            for (k, g) in group.into_iter().enumerate() {
                stmts.insert(i + k, Stmt::Raw(g));
            }
            i += 5;
        }
        if i < stmts.len() {
            match &mut stmts[i] {
                Stmt::If { branches, els, .. } => {
                    for (_, b) in branches.iter_mut() {
                        plant_block(b, rng, n_arrays, rate + 1);
                    }
                    if let Some(e) = els {
                        plant_block(e, rng, n_arrays, rate + 1);
                    }
                }
                Stmt::While { body, .. } | Stmt::ForIn { body, .. } => plant_block(body, rng, n_arrays, rate + 1),
                _ => {}
            }
        }
        i += 1;
    }
}

fn gen_case(rng: &mut Rng) -> Case {
    let opts = GenOpts { functions: true, faults: true, ..Default::default() };
    let mut p = gen::generate_program(rng, &opts);
    if p.arrays.is_empty() && rng.chance(1, 2) {
        p.arrays.push(vec!["a".to_string(), "b".to_string()]);
    }
    let n_arrays = p.arrays.len();
    let rate = 2 + rng.below(3);
    plant_block(&mut p.main, rng, n_arrays, rate);
    for f in p.fns.iter_mut() {
        if !f.scoped {
            plant_block(&mut f.body, rng, n_arrays, rate + 1);
        } else {
            // scoped bodies cannot see the arrays
            plant_block(&mut f.body, rng, 0, rate + 1);
        }
    }
    let mode = match rng.below(4) {
        0 | 1 => Mode::Text,
        2 => Mode::File,
        _ if rng.chance(1, 3) => Mode::TextWithInclude,
        _ => Mode::FileWithInclude,
    };
    if rng.chance(1, 4) {
        // one message for every failing line of the program: two errors then differ by position (line, file) only
        fn mono(stmts: &mut Vec<Stmt>) {
            for s in stmts.iter_mut() {
                match s {
                    Stmt::Fail(_, m) => *m = "m1".to_string(),
                    Stmt::Raw(l) => {
                        for head in ["trigger_error ", "x3 = trigger_error ", "assert_error ", "x2 = hfail ", "hfail "] {
                            if l.starts_with(head) {
                                *l = format!("{}m1", head);
                                break;
                            }
                        }
                    }
                    Stmt::If { branches, els, .. } => {
                        for (_, b) in branches.iter_mut() {
                            mono(b);
                        }
                        if let Some(e) = els {
                            mono(e);
                        }
                    }
                    Stmt::While { body, .. } | Stmt::ForIn { body, .. } => mono(body),
                    _ => {}
                }
            }
        }
        mono(&mut p.main);
        for f in p.fns.iter_mut() {
            mono(&mut f.body);
        }
    }
    if matches!(mode, Mode::FileWithInclude | Mode::TextWithInclude) && !p.fns.is_empty() && rng.chance(1, 3) {
        // the same message at the same line NUMBER in two files, one error right after the other, then the queries:
        // line 2 of the included file is the first body line of the first function, line 2 of the main file is its
        // first statement (no arrays before it)
        p.arrays.clear();
        let f = p.fns[0].name.clone();
        p.fns[0].body.insert(0, Stmt::Raw("hfail m1".to_string()));
        let mut head = vec![Stmt::Raw("hfail m1".to_string()), Stmt::Raw(f.clone()), Stmt::Raw("ps = get_last_error_source".to_string()), Stmt::Raw("pl = get_last_error_line".to_string())];
        if rng.chance(1, 2) {
            head.swap(0, 1);
        }
        head.extend(p.main.drain(..));
        p.main = head;
    }
    let nested = if rng.chance(1, 2) { (0..1 + rng.usize(2)).map(|_| (rng.below(4) as u32, rng.below(10) as u32)).collect() } else { vec![] };
    Case { entropy: rng.next_u64(), program: p, mode, nested }
}

// ------------------------------------------------------------------ execution

fn run_case(case: &Case, env: &WorkerEnv) -> Verdict {
    LAYOUT.with(|l| *l.borrow_mut() = None);
    let p = &case.program;
    let text = gen::render(p);
    let shared = std::rc::Rc::new(std::cell::RefCell::new(Shared::default()));
    sim::reset(Some(Box::new(ErrObs {
        last: None,
        expect_next_line: None,
        pending_false: None,
        exit_mode: false,
        fatal: None,
        text_mode: case.mode == Mode::Text || (case.mode == Mode::TextWithInclude && p.fns.is_empty()),
        layout: None,
        nested_plan: case.nested.clone(),
        script_d0_count: 0,
        in_script_cmd: None,
        nested_counter: 0,
        errors_seen: 0,
        shared: shared.clone(),
        d0_name: String::new(),
        cond_error: None,
    })));
    let mut context = gen::sdk_context();
    gen::add_harness(&mut context.commands);
    sim::decorate(&mut context.commands);
    gen::install_world(p, None);
    let renv = Env::new(Some(Box::new(SimWriter::new("out", vec![]))), Some(Box::new(SimWriter::new("err", vec![]))), None);
    let result = match case.mode {
        Mode::Text => runner::run_script(&text, context, Some(renv)),
        Mode::TextWithInclude if p.fns.is_empty() => runner::run_script(&text, context, Some(renv)),
        Mode::TextWithInclude => {
            let base = if env.chrooted { std::path::PathBuf::from("/") } else { env.jail_root.clone() };
            let dir = base.join("run");
            let _ = std::fs::remove_dir_all(&dir);
            let _ = std::fs::create_dir_all(dir.join("lib"));
            let mut q = p.clone();
            q.main = vec![];
            q.arrays = vec![];
            q.forever = false;
            let fns_text = gen::render(&q);
            let mut q2 = p.clone();
            q2.fns = vec![];
            let main_text = gen::render(&q2);
            let spliced = fns_text.lines().count();
            let inc = dir.join("lib").join("fns.ds");
            let _ = std::fs::write(&inc, fns_text);
            // (the main script's own lines carry no file: the layout's main path is the empty text)
            LAYOUT.with(|l| *l.borrow_mut() = Some((String::new(), spliced, "lib/fns.ds".to_string())));
            sim::with_core(|c| c.probe("text-run-with-an-included-file"));
            let r = runner::run_script(&format!("!include_files {}\n{}", inc.to_string_lossy(), main_text), context, Some(renv));
            let _ = std::fs::remove_dir_all(&dir);
            r
        }
        Mode::File | Mode::FileWithInclude => {
            let base = if env.chrooted { std::path::PathBuf::from("/") } else { env.jail_root.clone() };
            let dir = base.join("run");
            let _ = std::fs::remove_dir_all(&dir);
            let _ = std::fs::create_dir_all(dir.join("lib"));
            let main_path = dir.join("main.ds");
            let mut spliced = 0usize;
            if case.mode == Mode::FileWithInclude && !p.fns.is_empty() {
                // the function definitions (everything up to the first line of main) go to an included file
                let mut q = p.clone();
                q.main = vec![];
                q.arrays = vec![];
                q.forever = false;
                let fns_text = gen::render(&q);
                let mut q2 = p.clone();
                q2.fns = vec![];
                let main_text = gen::render(&q2);
                // arrays are rendered first by `render`; keep them before the include so that indexes stay simple
                spliced = fns_text.lines().count();
                let _ = std::fs::write(dir.join("lib").join("fns.ds"), fns_text);
                let _ = std::fs::write(&main_path, format!("!include_files lib/fns.ds\n{}", main_text));
            } else {
                let _ = std::fs::write(&main_path, &text);
            }
            LAYOUT.with(|l| *l.borrow_mut() = Some((main_path.to_string_lossy().to_string(), spliced, "lib/fns.ds".to_string())));
            let r = runner::run_script_file(&main_path.to_string_lossy(), context, Some(renv));
            let _ = std::fs::remove_dir_all(&dir);
            r
        }
    };
    let budget_hit = sim::with_core(|c| c.budget_hit);
    if let Some((class, detail)) = sim::with_core(|c| c.violation.clone()) {
        return Verdict::Fail { class, detail };
    }
    if budget_hit {
        return Verdict::Inconclusive { reason: "step budget".to_string() };
    }
    let sh = shared.borrow();
    match (&sh.fatal, result) {
        (Some(t), Err(ScriptError::Runtime(msg, meta))) => {
            let (l, s) = match meta {
                Some(m) => (m.line, m.source),
                None => (None, None),
            };
            if msg != t.msg || l.map(|x| x.to_string()) != Some(t.line.clone()) || s.clone().unwrap_or_default() != t.src {
                Verdict::Fail { class: "fatal-error-position".to_string(), detail: format!("run failed with {:?} at line {:?} of {:?}; the failing instruction answered {:?} at line {} of {:?}", msg, l, s, t.msg, t.line, t.src) }
            } else {
                Verdict::Pass
            }
        }
        (Some(t), Ok(_)) => Verdict::Fail { class: "fatal-error-survived".to_string(), detail: format!("exit_on_error was on and {:?} failed at line {}, yet the run returned Ok", t.msg, t.line) },
        (Some(_), Err(e)) => Verdict::Fail { class: "fatal-error-position".to_string(), detail: format!("run failed with another error kind: {}", e) },
        (None, Ok(_)) => Verdict::Pass,
        (None, Err(e)) => Verdict::Fail { class: "unexpected-failure".to_string(), detail: format!("no fatal error was due, the run failed: {}", e) },
    }
}

pub struct C10;

impl Prop for C10 {
    fn id(&self) -> &'static str {
        "C10"
    }
    fn info(&self) -> PropInfo {
        PropInfo {
            level: "exploration",
            rule: "seeded programs (functions, loops, branches) over the real SDK with failing commands at arbitrary positions: hfail / trigger_error / assert_error / naturally failing commands, with and without output variable; the decorator additionally fails arbitrary leaf commands at depth 0 (buggify) and inner commands of script-implemented commands (nested F1); exit_on_error toggled mid-script; last-error probes at random later points; run from text, from a file, and with the function definitions in an included file. Oracle from the decorator's record of every depth-0 Error: handler arguments, output variable = false, continuation at the next instruction, probe answers = latest error (message, line, file), fatal mode ends the run with that message and line. Non-trivial = >= 3 steps and at least one error fired; distinct = distinct abstract traces",
            real: &["runner (error branch, on_error dispatch)", "SDK error::* commands (on_error, exit_on_error, get_last_error*, trigger_error), test::assert_error", "AliasCommand (errors inside script-implemented commands)", "flow control", "parser/include pre-processor in file modes"],
            stub: &["emit / cnd / hfail harness commands", "streams"],
            assumptions: &["flow-control and condition commands are never fault points", "the (line, source) of an instruction is read from the parsed instruction list (its correctness is C14's); in text mode it is additionally required to equal index + 1"],
            needs_jail: true,
            needs_duck: false,
            expected_probes: &["probe-after-error", "two-errors-then-probe", "exit-on-error-toggled", "fatal-error", "error-inside-script-implemented-command", "error-in-included-file", "message-with-special-characters", "set-error-used"],
        }
    }
    fn runs(&self, tier: &str) -> u64 {
        if tier == "quick" { 40_000 } else { 2_000_000 }
    }
    fn generate(&self, rng: &mut Rng, _avoid: &[String]) -> Value {
        serde_json::to_value(gen_case(rng)).unwrap()
    }
    fn execute(&self, case: &Value, env: &WorkerEnv) -> Outcome {
        let case: Case = match serde_json::from_value(case.clone()) {
            Ok(c) => c,
            Err(e) => return Outcome::collect(Verdict::Inconclusive { reason: format!("bad case: {}", e) }, true),
        };
        let res = std::panic::catch_unwind(std::panic::AssertUnwindSafe(|| run_case(&case, env)));
        let verdict = match res {
            Ok(v) => v,
            Err(_) => {
                let p = sim::take_panic().unwrap_or_default();
                Verdict::Fail { class: format!("panic@{}", sim::panic_site(&p)), detail: p }
            }
        };
        let _ = sim::take_observer();
        // every depth-0 error is a fired fault for the purposes of "non-trivial"
        sim::with_core(|c| {
            let errors = c.log.iter().filter(|e| matches!(e, sim::Event::End { depth: 0, res, .. } if res == "Error")).count() as u64;
            if errors > 0 {
                *c.fired.entry("F1-natural".to_string()).or_insert(0) += errors;
                let seq = c.next_seq();
                c.log.push(sim::Event::Fault { seq, kind: "errors".to_string(), detail: errors.to_string() });
            }
        });
        Outcome::collect(verdict, true)
    }
    fn shrink(&self, case: &Value) -> Vec<Value> {
        let case: Case = match serde_json::from_value(case.clone()) {
            Ok(c) => c,
            Err(_) => return vec![],
        };
        let mut out: Vec<Case> = vec![];
        if case.mode != Mode::Text {
            let mut c = case.clone();
            c.mode = Mode::Text;
            out.push(c);
        }
        if !case.nested.is_empty() {
            let mut c = case.clone();
            c.nested.clear();
            out.push(c);
        }
        for p in gen::shrink_program(&case.program) {
            let mut c = case.clone();
            c.program = p;
            out.push(c);
        }
        if case.entropy != 0 {
            let mut c = case.clone();
            c.entropy = 0;
            out.push(c);
        }
        out.into_iter().filter(|c| *c != case).map(|c| serde_json::to_value(c).unwrap()).collect()
    }
}
