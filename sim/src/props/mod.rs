pub mod c03;
pub mod c04;
pub mod c07;
pub mod c10;
pub mod c11;
pub mod c12;
pub mod c14;
pub mod c15;
pub mod c18;
pub mod c19;
pub mod c20;
pub mod ops;
pub mod c13;
pub mod gen;

use crate::prop::Prop;

pub fn all() -> Vec<&'static dyn Prop> {
    vec![&c03::C03, &c04::C04, &c04::C05, &c07::C07, &c10::C10, &c11::C11, &c12::C12, &c13::C13, &c14::C14, &c15::C15, &c18::C18, &c19::C19, &c20::C20]
}

pub fn by_id(id: &str) -> Option<&'static dyn Prop> {
    all().into_iter().find(|p| p.id() == id)
}
