//! C04 (structured blocks) and C05 (functions): generated programs over the real SDK flow
//! control, compared online against the tree-walking interpreter of `gen`.

use crate::prop::{Outcome, Prop, PropInfo, Verdict, WorkerEnv};
use crate::props::gen::{self, GenOpts, Program};
use crate::rng::Rng;
use crate::sim;
use serde::{Deserialize, Serialize};
use serde_json::Value;

#[derive(Serialize, Deserialize, Clone, Debug, PartialEq)]
pub struct Case {
    pub entropy: u64,
    pub program: Program,
    /// long haul: instead of `program`, a fixed small loop nest runs tens of thousands of rounds without event
    /// recording (bookkeeping that grows or is walked once per round shows only there)
    #[serde(default)]
    pub long: Option<LongHaul>,
}

#[derive(Serialize, Deserialize, Clone, Debug, PartialEq)]
pub struct LongHaul {
    pub rounds: u32,
    /// 0 while inside the taken branch of if/else, an else-less if in its body; 1 while inside while; 2 for-in over a
    /// range inside if/else; 3 (functions) a function called once per round; 4 (functions) a function that returns
    /// from inside two nested for-in loops, called once per round of a while inside a for-in
    pub shape: u8,
}

fn long_haul_text(l: &LongHaul) -> String {
    match l.shape {
        0 => "if true\n    while cnd 0 false\n        if true\n            x1 = set b\n        end\n    end\nelse\n    emit else-taken\nend\nemit after\n".to_string(),
        1 => "while cnd 1 false\n    while cnd 0 false\n        x1 = set b\n    end\nend\nemit after\n".to_string(),
        2 => format!("r = range 0 {}\nif true\n    for i in ${{r}}\n        if true\n            x1 = set b\n        end\n    end\nelse\n    emit else-taken\nend\nrelease ${{r}}\nemit after\n", l.rounds),
        4 => "rows = array b r2\ncols = array a c d\njobs = array job1\nfn find\n    for x in ${rows}\n        for y in ${cols}\n            if equals ${y} ${1}\n                return ${x}\n            end\n        end\n    end\nend\nfor job in ${jobs}\n    while cnd 0 false\n        x1 = find a\n    end\nend\nemit after\n".to_string(),
        _ => "fn f0\n    if true\n        x1 = set b\n    end\n    return ${1}\nend\nwhile cnd 0 false\n    x2 = f0 v\nend\nemit after\n".to_string(),
    }
}

fn run_long_haul(l: &LongHaul) -> Verdict {
    use duckscript::types::env::Env;
    let text = long_haul_text(l);
    let mut context = gen::sdk_context();
    gen::add_harness(&mut context.commands);
    sim::decorate(&mut context.commands);
    // site 0 answers true `rounds` times, site 1 (the outer loop of shape 1) twice
    let world = Program { fns: vec![], arrays: vec![], main: vec![], cnd: vec![vec![true; l.rounds as usize], vec![true, true]], fail_leaf: vec![], forever: false, crlf: false };
    gen::install_world(&world, None);
    sim::with_core(|c| {
        c.quiet = true;
        c.budget = 40_000_000;
        c.probe("long-haul-loop");
    });
    sim::phase("long haul loop");
    let env = Env::new(Some(Box::new(sim::SimWriter::new("out", vec![]))), Some(Box::new(sim::SimWriter::new("err", vec![]))), None);
    let res = std::panic::catch_unwind(std::panic::AssertUnwindSafe(|| duckscript::runner::run_script(&text, context, Some(env))));
    match res {
        Err(_) => {
            let pm = sim::take_panic().unwrap_or_default();
            Verdict::Fail { class: format!("panic@{}", sim::panic_site(&pm)), detail: pm }
        }
        Ok(Err(e)) => Verdict::Fail { class: "run-failed".to_string(), detail: format!("long haul ({} rounds, shape {}): {}", l.rounds, l.shape, e) },
        Ok(Ok(ctx)) => {
            if sim::with_core(|c| c.budget_hit) {
                return Verdict::Fail { class: "no-termination".to_string(), detail: format!("long haul ({} rounds, shape {}) exhausted the step budget", l.rounds, l.shape) };
            }
            if gen::emitted() != 1 {
                return Verdict::Fail { class: "trace-divergence".to_string(), detail: format!("long haul ({} rounds, shape {}): {} emits instead of the single one after the loop", l.rounds, l.shape, gen::emitted()) };
            }
            if ctx.variables.get("x1").map(|v| v.as_str()) != Some("b") {
                return Verdict::Fail { class: "final-variables".to_string(), detail: format!("long haul: x1 = {:?}", ctx.variables.get("x1")) };
            }
            Verdict::Pass
        }
    }
}

pub struct Structured {
    pub functions: bool,
}

pub static C04: Structured = Structured { functions: false };
pub static C05: Structured = Structured { functions: true };

pub fn run_and_compare(p: &Program, strict_cond_errors: bool) -> Verdict {
    run_and_compare2(p, strict_cond_errors, false)
}

pub fn run_and_compare2(p: &Program, strict_cond_errors: bool, strict_header_errors: bool) -> Verdict {
    let mut interp = gen::Interp::new(p);
    interp.strict_cond_errors = strict_cond_errors;
    interp.strict_header_errors = strict_header_errors;
    let m = match interp.run() {
        Ok(m) => m,
        Err(gen::Stop::Inconclusive(r)) => return Verdict::Inconclusive { reason: r },
    };
    for pr in &m.probes {
        sim::with_core(|c| c.probe(pr));
    }
    let expected_n = m.emits.len();
    const BUDGET: u64 = 400_000;
    sim::with_core(|c| c.budget = BUDGET);
    let res = std::panic::catch_unwind(std::panic::AssertUnwindSafe(|| gen::run_real(p, None, Some(m.emits.clone()))));
    let budget_hit = sim::with_core(|c| c.budget_hit);
    match res {
        Err(_) => {
            let pm = sim::take_panic().unwrap_or_default();
            Verdict::Fail { class: format!("panic@{}", sim::panic_site(&pm)), detail: pm }
        }
        Ok(result) => {
            if let Some((class, detail)) = sim::with_core(|c| c.violation.clone()) {
                return Verdict::Fail { class, detail };
            }
            if budget_hit {
                // one model statement costs up to a few hundred decorated invocations (a library command looping over a
                // 40-element array); only a run far beyond that is a failure to terminate, anything else is just long
                if BUDGET > 600 * m.steps + 5_000 {
                    return Verdict::Fail { class: "no-termination".to_string(), detail: format!("the real run exhausted {} steps although the model terminated after {} statements", BUDGET, m.steps) };
                }
                return Verdict::Inconclusive { reason: "step budget in a long run".to_string() };
            }
            match result {
                Err(e) => Verdict::Fail { class: "run-failed".to_string(), detail: format!("the model completes, the real run failed: {}", e) },
                Ok(ctx) => {
                    if gen::emitted() != expected_n {
                        return Verdict::Fail { class: "trace-divergence".to_string(), detail: format!("the real run emitted {} events, the model {}", gen::emitted(), expected_n) };
                    }
                    match gen::compare_vars(&ctx.variables, &m.vars, &m.unknown) {
                        Some(d) => Verdict::Fail { class: "final-variables".to_string(), detail: d },
                        None => Verdict::Pass,
                    }
                }
            }
        }
    }
}

impl Prop for Structured {
    fn id(&self) -> &'static str {
        if self.functions { "C05" } else { "C04" }
    }
    fn info(&self) -> PropInfo {
        if self.functions {
            PropInfo {
                level: "exploration",
                rule: "seeded programs with 0-3 function definitions (scoped or not), calls as statements / with output variable / in condition position, returns at any depth inside if/while/for-in, nested and recursive calls bounded by scripted conditions, repeated calls after early returns, erroring leaf commands injected by the decorator (F1); executed on the real SDK and compared at every emit (arguments + whole variable map) with a tree-walking interpreter with call frames; the two documented corners are unconstrained. Non-trivial = >= 3 steps; distinct = distinct abstract traces",
                real: &["parser", "runner", "SDK flowcontrol (function/return/if/while/for/end)", "utils::scope", "utils::eval", "utils::condition", "set", "array", "equals", "not"],
                stub: &["emit", "cnd (scripted condition outcomes)", "hfail (erroring leaf)"],
                assumptions: &["values from a benign pool (no $ % \\ # quote corners)", "call output variables are read only right after the call", "conditions never read a value the statement leaves unconstrained (such runs are inconclusive)"],
                needs_jail: false,
                needs_duck: false,
                expected_probes: &["return-from-while", "return-from-for", "return-from-loop-depth-2", "recursive-call", "call-in-condition", "scoped-valueless-with-out", "error-inside-loop-body"],
            }
        } else {
            PropInfo {
                level: "exploration",
                rule: "seeded well-nested programs of if/elseif/else, while and for-in blocks (depth <= 4, empty bodies, zero-iteration loops), every keyword spelled with a random alias or its full name and closed by the generic or specific end; condition forms value / and / or / command / negated command; loop and branch outcomes come from scripted `cnd` sequences; erroring leaf commands injected by the decorator (F1); hash order and handle names from the run's entropy (F13). Executed on the real SDK and compared at every emit (arguments + whole variable map) with a tree-walking interpreter. Non-trivial = >= 3 steps; distinct = distinct abstract traces",
                real: &["parser", "runner", "SDK flowcontrol (if/elseif/else/while/for/end)", "utils::instruction_query", "utils::condition", "utils::eval", "not", "equals", "set", "array"],
                stub: &["emit", "cnd (scripted condition outcomes)", "hfail (erroring leaf)"],
                assumptions: &["thin fault space: no I/O and no schedule; the simulator owns loop/branch outcomes, erroring leaves and hash order only", "values from a benign pool; values used as conditions are never spelled like a registered command", "loop bodies do not mutate the iterated array; the loop variable's value after the loop is unconstrained"],
                needs_jail: false,
                needs_duck: false,
                expected_probes: &["elseif-chain-inside-nested-loops", "zero-iteration-for", "zero-iteration-while", "error-inside-loop-body"],
            }
        }
    }
    fn runs(&self, tier: &str) -> u64 {
        if tier == "quick" { 150_000 } else { 4_000_000 }
    }
    fn generate(&self, rng: &mut Rng, avoid: &[String]) -> Value {
        let opts = GenOpts {
            functions: self.functions,
            faults: true,
            lib_calls: true,
            avoid_forin_return: avoid.iter().any(|a| a == "return_or_call_inside_forin_body"),
            avoid_fullname_else: avoid.iter().any(|a| a == "fullname_else"),
            odd_cond_args: self.functions && !avoid.iter().any(|a| a == "condition_call_argument_reparse"),
            err_conds: !self.functions && !avoid.iter().any(|a| a == "condition_reports_error"),
            ..Default::default()
        };
        let program = gen::generate_program(rng, &opts);
        let long = if rng.chance(1, 15_000) { Some(LongHaul { rounds: 70_000 + rng.below(60_000) as u32, shape: if self.functions { 3 + rng.below(2) as u8 } else { rng.below(3) as u8 } }) } else { None };
        serde_json::to_value(Case { entropy: rng.next_u64(), program, long }).unwrap()
    }
    fn execute(&self, case: &Value, env: &WorkerEnv) -> Outcome {
        let case: Case = match serde_json::from_value(case.clone()) {
            Ok(c) => c,
            Err(e) => return Outcome::collect(Verdict::Inconclusive { reason: format!("bad case: {}", e) }, false),
        };
        let verdict = match &case.long {
            Some(l) => run_long_haul(l),
            None => run_and_compare2(&case.program, self.functions && !env.avoid.iter().any(|a| a == "error_inside_condition_call"), !self.functions && !env.avoid.iter().any(|a| a == "condition_reports_error")),
        };
        Outcome::collect(verdict, false)
    }
    fn shrink(&self, case: &Value) -> Vec<Value> {
        let case: Case = match serde_json::from_value(case.clone()) {
            Ok(c) => c,
            Err(_) => return vec![],
        };
        if let Some(l) = &case.long {
            // fewer rounds
            let mut out = vec![];
            for r in [l.rounds / 2, l.rounds * 3 / 4] {
                if r >= 1000 {
                    out.push(serde_json::to_value(Case { entropy: 0, program: Program { fns: vec![], arrays: vec![], main: vec![], cnd: vec![], fail_leaf: vec![], forever: false, crlf: false }, long: Some(LongHaul { rounds: r, shape: l.shape }) }).unwrap());
                }
            }
            return out;
        }
        let mut out: Vec<Case> = gen::shrink_program(&case.program).into_iter().map(|p| Case { entropy: case.entropy, program: p, long: None }).collect();
        if case.entropy != 0 {
            out.push(Case { entropy: 0, program: case.program.clone(), long: None });
        }
        out.into_iter().map(|c| serde_json::to_value(c).unwrap()).collect()
    }
    fn known_match(&self, matcher: &str, case: &Value, _class: &str, _detail: &str) -> bool {
        let case: Case = match serde_json::from_value(case.clone()) {
            Ok(c) => c,
            Err(_) => return false,
        };
        match matcher {
            "return_or_call_inside_forin_body" => gen::has_return_or_call_in_forin(&case.program),
            "fullname_else" => gen::uses_fullname_else(&case.program),
            // a Fail statement in the body of a function that is called in condition position somewhere
            // exactly the runs that the lenient model gives up on for that reason (a failure of any other run of a
            // program that merely contains such a function is not this finding)
            "error_inside_condition_call" => matches!(gen::Interp::new(&case.program).run(), Err(gen::Stop::Inconclusive(r)) if r == "failing leaf inside a condition call"),
            "condition_call_argument_reparse" => gen::has_odd_condition_call_argument(&case.program),
            // exactly the runs in which a header's own condition reported an error before anything else went wrong
            "condition_reports_error" => matches!(gen::Interp::new(&case.program).run(), Err(gen::Stop::Inconclusive(r)) if r == "a condition that reports an error"),
            _ => false,
        }
    }
}
