//! C07 - no script can panic, abort or hang the embedding process.
//! The simulator's own contribution: failing/short stream writes (F7), dangling handles built by
//! earlier lines (F10), a deterministic step budget (F12), abort attribution to the run (worker
//! processes) and exact replay of the crashing history.

use crate::prop::{Outcome, Prop, PropInfo, Verdict, WorkerEnv};
use crate::props::gen;
use crate::rng::Rng;
use crate::sim::{self, Event, SimWriter, WriteFault};
use duckscript::runner;
use duckscript::types::env::Env;
use serde::{Deserialize, Serialize};
use serde_json::Value;
use std::collections::BTreeMap;

#[derive(Serialize, Deserialize, Clone, Debug, PartialEq)]
pub enum Workload {
    /// arbitrary text handed to run_script
    Raw(String),
    /// a prelude building handles/files, then library command lines
    Lines(Vec<String>),
    /// a script file that includes itself (the include-cycle probe)
    SelfInclude,
    /// long haul: a loop builds a collection nested `n` levels deep (wrap 0 array in array, 1 map in map, 2 set in
    /// set), then one command walks it (consumer 0 release -r, 1 json_encode --collection, 2 plain release,
    /// 3 array_length / is_map / is_set); no event recording
    Deep { n: u32, wrap: u8, consumer: u8 },
}

fn deep_text(n: u32, wrap: u8, consumer: u8) -> String {
    let (first, step) = match wrap {
        0 => ("cur = array leaf", "    cur = array ${cur}"),
        1 => ("cur = map", "    nxt = map\n    map_put ${nxt} inner ${cur}\n    cur = set ${nxt}"),
        _ => ("cur = set_new leaf", "    cur = set_new ${cur}"),
    };
    let tail = match consumer {
        0 => "ok = release -r ${cur}",
        1 => "js = json_encode --collection ${cur}",
        2 => "ok = release ${cur}",
        _ => "n1 = array_length ${cur}\nn2 = is_map ${cur}\nn3 = is_set ${cur}",
    };
    format!("{}\nr = range 0 {}\nfor i in ${{r}}\n{}\nend\nrelease ${{r}}\n{}\necho done\n", first, n, step, tail)
}

#[derive(Serialize, Deserialize, Clone, Debug, PartialEq)]
pub struct Case {
    pub entropy: u64,
    pub workload: Workload,
    /// (stream 0=out 1=err, write-call index, fault)
    pub write_faults: Vec<(u8, u64, WriteFault)>,
    /// line indexes at which a `Lines` workload is cut into separate top-level runs, each continuing on the context
    /// the previous run returned (what the REPL and embedders that keep a context do)
    #[serde(default)]
    pub cuts: Vec<usize>,
    /// the process environment of the run holds a variable whose value is not UTF-8 (F16)
    #[serde(default)]
    pub odd_env: bool,
}

/// commands that act on the process environment, the temporary directory and test files: kept out of every other
/// world; here the run gets a fixed environment of its own (restored afterwards) and a /tmp inside the jail
pub const EXTRA: [&str; 8] = ["set_env", "unset_env", "get_env", "env_to_map", "print_env", "temp_file", "temp_dir", "test_directory"];

/// replaces the process environment by a small fixed one; returns what was there
fn enter_fixed_env(odd: bool) -> Vec<(std::ffi::OsString, std::ffi::OsString)> {
    use std::os::unix::ffi::OsStringExt;
    let saved: Vec<(std::ffi::OsString, std::ffi::OsString)> = std::env::vars_os().collect();
    for (k, _) in &saved {
        std::env::remove_var(k);
    }
    std::env::set_var("PATH", "/bin");
    std::env::set_var("HOME", "/");
    std::env::set_var("TMPDIR", "/tmp");
    std::env::set_var("DSIM_V", "h\u{e9}llo");
    if odd {
        std::env::set_var("DSIM_ODD", std::ffi::OsString::from_vec(vec![b'a', 0xff, b'b']));
    }
    saved
}

fn leave_fixed_env(saved: Vec<(std::ffi::OsString, std::ffi::OsString)>) {
    let now: Vec<std::ffi::OsString> = std::env::vars_os().map(|(k, _)| k).collect();
    for k in now {
        std::env::remove_var(k);
    }
    for (k, v) in saved {
        std::env::set_var(k, v);
    }
}

pub const STEP_BUDGET: u64 = 20_000;

const PRELUDE: [&str; 14] = [
    "arr = array a b \"c d\" 3",
    "arr0 = array",
    "mp = map",
    "map_put ${mp} k v",
    "st = set_new x y",
    "bytes = string_to_bytes h\u{e9}llo",
    "released = array gone",
    "release ${released}",
    "v0 = set hello",
    "v1 = set 5",
    "writefile run/c07/f.txt \"line one\"",
    "mkdir run/c07/d",
    "nulb = base64_decode AA==",
    "nul = bytes_to_string ${nulb}",
];

const NUMBERS: [&str; 28] = [
    "0", "1", "-1", "5", "2", "3.7", "abc", "", "99999999999999999999", "-0", "1e3", "\u{ff19}", "100", "-5", "7", "0x10",
    // integer boundaries (allocation-proportional uses are answered by the cap)
    "9223372036854775807", "-9223372036854775808", "18446744073709551615", "4294967296", "2147483648", "-2147483649", "65536", "255",
    "170141183460469231731687303715884105727", "-170141183460469231731687303715884105728", "-170141183460469231731687303715884105727", "340282366920938463463374607431768211455",
];
const TEXTS: [&str; 18] = ["hello", "h\u{e9}llo", "\u{6f22}\u{5b57}", "", "a b", "true", "false", "0", "%", "${v0}", "${undefined}", "x=y", "1.2.3", "{\"a\":[1,2,{\"b\":null}]}", "-", "a,b,,c", "${nul}", "A${nul}"];
const HANDLES: [&str; 9] = ["${arr}", "${arr0}", "${mp}", "${st}", "${bytes}", "${released}", "nohandle", "handle:zzzzzzzzzzzzzzzzzzzz", "${r0}"];
const PATHS: [&str; 10] = ["run/c07/f.txt", "run/c07/d", "run/c07/missing.txt", "", ".", "run/c07/*.txt", "run/c07/d/new.txt", "run/c07", "run/c07/f.txt/x", "run/c07/${nul}"];
const UNTYPED: [&str; 14] = ["a", "", "0", "-1", "${arr}", "h\u{e9}", "--help", "-r", "in", "and", "(", ")", "handle:", "${r1}"];

fn q(v: &str) -> String {
    let needs = v.is_empty() || v.contains(' ') || v.contains('#') || v.contains('"') || v.contains('\\');
    let mut body = String::new();
    for c in v.chars() {
        match c {
            '"' => body.push_str("\\\""),
            _ => body.push(c),
        }
    }
    if needs { format!("\"{}\"", body) } else { body }
}

/// documents whose keys look like the flattened paths the encoder works with
const JSON_DOCS: [&str; 12] = [
    "[{\"k]\":\"1\"}]", "{\"a[b\":{\"k]\":\"1\"}}", "{\"a.b\":{\"c\":1}}", "{\"\":1}", "[[[]]]", "{\"a\":{\"a\":{\"a\":[{\"a\":1}]}}}", "{\"x[0]\":1,\"x\":[2]}", "{\"k\":\"v]\"}", "[1,\"]\",{\"[\":[]}]", "{\"a\":null,\"b\":true,\"c\":1.5e300}",
    "{\"length\":1,\"a.length\":2}", "\"just text\"",
];
/// values with a line break (written with the documented \\r / \\n escapes)
const CRLF_TEXTS: [&str; 3] = ["a/\\r/b", "x\\ny", "\\r\\n"];

struct CmdInfo {
    name: String,
    spell: Vec<String>,
    flags: Vec<String>,
    family: u8,
}

fn family_of(name: &str) -> u8 {
    if name.starts_with("std::collections") || name == "std::Release" {
        0
    } else if name.starts_with("std::fs") || name.starts_with("std::hash") {
        1
    } else if name.starts_with("std::math") || name.starts_with("std::random") {
        2
    } else if name.starts_with("std::string") || name.starts_with("std::semver") || name.starts_with("std::json") {
        3
    } else {
        4
    }
}

fn catalogue() -> &'static Vec<CmdInfo> {
    static CAT: std::sync::OnceLock<Vec<CmdInfo>> = std::sync::OnceLock::new();
    CAT.get_or_init(|| {
        let mut c = gen::sdk_commands();
        gen::add_sdk_commands(&mut c, &EXTRA);
        let mut names: Vec<String> = c.commands.keys().cloned().collect();
        names.sort();
        let mut v = vec![];
        for n in names {
            let cmd = c.get(&n).unwrap();
            let help = cmd.help();
            // option flags from the usage line(s) of the first code block
            let mut flags: Vec<String> = vec![];
            if let Some(i) = help.find("```sh") {
                let rest = &help[i + 5..];
                let block = &rest[..rest.find("```").unwrap_or(rest.len())];
                for tok in block.split(|ch: char| ch.is_whitespace() || ch == '[' || ch == ']' || ch == '(' || ch == ')' || ch == '|') {
                    if tok.starts_with('-') && tok.len() > 1 && tok.chars().skip(1).all(|ch| ch.is_ascii_alphanumeric() || ch == '-' || ch == '_') && !flags.contains(&tok.to_string()) {
                        flags.push(tok.to_string());
                    }
                    // annotations such as <scope>
                    if tok.len() > 2 && tok.starts_with('<') && tok.ends_with('>') && tok[1..tok.len() - 1].chars().all(|ch| ch.is_ascii_lowercase() || ch == '_') && !flags.contains(&tok.to_string()) {
                        flags.push(tok.to_string());
                    }
                }
            }
            let mut spell = cmd.aliases();
            spell.push(n.clone());
            v.push(CmdInfo { family: family_of(&n), name: n, spell, flags });
        }
        v
    })
}

fn gen_arg(rng: &mut Rng, info: &CmdInfo, crlf: bool) -> String {
    if crlf && rng.chance(1, 12) {
        return q(*rng.pick(&CRLF_TEXTS));
    }
    if rng.chance(1, 14) {
        // a multi-byte character spliced into an otherwise plain number or word, at one of its first positions (code
        // that cuts a prefix off by byte offsets meets a character boundary it did not expect): `0\u{e9}x10`, `-\u{6f22}1`
        let base = loop {
            let b = if rng.chance(1, 2) { *rng.pick(&NUMBERS) } else { *rng.pick(&TEXTS) };
            if !b.contains("${") && !b.contains('%') {
                break b;
            }
        };
        let chars: Vec<char> = base.chars().collect();
        let at = rng.usize(chars.len().min(3) + 1);
        let wide = *rng.pick(&['\u{e9}', '\u{6f22}', '\u{1f600}']);
        let mut v: String = chars[..at].iter().collect();
        v.push(wide);
        v.extend(chars[at..].iter());
        return q(&v);
    }
    if !info.flags.is_empty() && rng.chance(1, 4) {
        let f = rng.pick(&info.flags).clone();
        if rng.chance(1, 6) {
            // a flag / annotation look-alike: padded, in another case, doubled
            return match rng.below(5) {
                0 => q(&format!("  {}", f)),
                1 => q(&format!("{}  ", f)),
                2 => q(&format!("\u{a0}{}\u{a0}", f)),
                3 => q(&f.to_uppercase()),
                _ => q(&format!("{}{}", f, f)),
            };
        }
        return f;
    }
    if rng.chance(3, 10) {
        return q(*rng.pick(&UNTYPED));
    }
    match info.family {
        0 => match rng.below(4) {
            0 | 1 => rng.pick(&HANDLES).to_string(),
            2 => q(*rng.pick(&NUMBERS)),
            _ => q(*rng.pick(&TEXTS)),
        },
        1 => {
            if rng.chance(3, 4) { q(*rng.pick(&PATHS)) } else { q(*rng.pick(&TEXTS)) }
        }
        2 => q(*rng.pick(&NUMBERS)),
        3 => {
            if rng.chance(2, 3) { q(*rng.pick(&TEXTS)) } else { q(*rng.pick(&NUMBERS)) }
        }
        _ => match rng.below(4) {
            0 => rng.pick(&HANDLES).to_string(),
            1 => q(*rng.pick(&NUMBERS)),
            2 => q(*rng.pick(&PATHS)),
            _ => q(*rng.pick(&TEXTS)),
        },
    }
}

fn is_flag_word(t: &str) -> bool {
    let t = t.trim_matches('"');
    t == "true" || t == "false"
}

/// the text defines a function named true or false
fn defines_flag_function(lines: &[String]) -> bool {
    lines.iter().any(|l| {
        let toks: Vec<&str> = l.split_whitespace().collect();
        toks.iter().position(|t| *t == "function" || *t == "fn" || *t == "std::flowcontrol::Function").map(|k| toks[k + 1..].iter().any(|t| is_flag_word(t))).unwrap_or(false)
    })
}

fn gen_lines(rng: &mut Rng, avoid: &[String]) -> Vec<String> {
    let cat = catalogue();
    let mut lines: Vec<String> = PRELUDE.iter().map(|s| s.to_string()).collect();
    let m = if rng.chance(1, 2) { 6 } else { 25 };
    let n = 1 + rng.usize(m);
    // swarm: a run concentrates on a few families
    let fam_w: [u32; 5] = [1 + rng.below(5) as u32, 1 + rng.below(5) as u32, 1 + rng.below(5) as u32, 1 + rng.below(5) as u32, 1 + rng.below(5) as u32];
    for i in 0..n {
        let fam = rng.weighted(&fam_w) as u8;
        // commands whose only known way to violate the property is a listed finding are kept out of the main stream
        let skip_alias = avoid.iter().any(|a| a == "alias_cycle");
        let pool: Vec<&CmdInfo> = cat.iter().filter(|c| c.family == fam && !(skip_alias && c.name == "std::lib::alias::Set")).collect();
        if pool.is_empty() {
            continue;
        }
        let info = *rng.pick(&pool);
        let n_args = match rng.below(8) {
            0 => 0,
            1 | 2 => 1,
            3 | 4 | 5 => 2,
            6 => 3,
            _ => 4,
        };
        let mut l = format!("r{} = {}", i % 4, rng.pick(&info.spell));
        for _ in 0..n_args {
            l.push(' ');
            // known finding: join_path (and cp_glob through it) does not terminate on values with a line break
            let crlf_ok = !(avoid.iter().any(|a| a == "crlf_value_hang") && (info.name == "std::fs::JoinPath" || info.name == "std::fs::CPGlob"));
            l.push_str(&gen_arg(rng, info, crlf_ok));
        }
        if info.name == "std::flowcontrol::Function" && avoid.iter().any(|a| a == "function_named_like_flag") {
            // known finding: a function called true/false is invoked by the conditions of script-implemented commands
            // (also through a variable whose value an earlier failing command made "false")
            l = l.split(' ').enumerate().map(|(k, t)| if is_flag_word(t) || (k > 2 && t.starts_with("${")) { "flagless" } else { t }).collect::<Vec<_>>().join(" ");
        }
        lines.push(l);
    }
    // documents with keys that look like the encoder's own path syntax, parsed and encoded back
    if rng.chance(1, 8) {
        let doc = *rng.pick(&JSON_DOCS);
        let coll = rng.chance(1, 2);
        let at = PRELUDE.len() + rng.usize(lines.len() - PRELUDE.len() + 1);
        lines.insert(at, format!("jdoc = json_parse {}{}", if coll { "--collection " } else { "" }, q(doc)));
        // (plain form: the root VARIABLE NAME; collection form: the handle)
        lines.insert(at + 1, if coll && rng.chance(3, 4) { "jtext = json_encode --collection ${jdoc}".to_string() } else if rng.chance(1, 6) { "jtext = json_encode ${jdoc}".to_string() } else { "jtext = json_encode jdoc".to_string() });
        if rng.chance(1, 2) {
            lines.insert(at + 2, "jdoc2 = json_parse ${jtext}".to_string());
        }
    }
    // handle graphs: collections that contain their own handle or each other, then recursive release
    if rng.chance(1, 5) {
        let mut block: Vec<String> = vec![];
        for _ in 0..1 + rng.usize(3) {
            block.push(
                match rng.below(6) {
                    0 => "array_push ${arr} ${arr}",
                    1 => "map_put ${mp} self ${mp}",
                    2 => "array_push ${arr0} ${arr}",
                    3 => "array_push ${arr} ${arr0}",
                    4 => "set_put ${st} ${st}",
                    _ => "map_put ${mp} a ${arr}",
                }
                .to_string(),
            );
        }
        // ... then something that walks the graph: recursive release, or an encoder
        let target = *rng.pick(&["${arr}", "${mp}", "${st}", "${arr0}"]);
        block.push(match rng.below(8) {
            0 | 1 => format!("jc = json_encode --collection {}", target),
            2 => format!("pc = map_to_properties {}", target),
            _ => format!("release {} {}", rng.pick(&["-r", "--recursive", "-r", ""]), target).replace("  ", " "),
        });
        let at = PRELUDE.len() + rng.usize(lines.len() - PRELUDE.len() + 1);
        for (k, b) in block.into_iter().enumerate() {
            lines.insert(at + k, b);
        }
    }
    lines
}

const ALPHABET: [&str; 40] = [
    " ", " ", " ", "\n", "\n", "\r\n", "\t", ":", "=", "\"", "\\", "#", "!", "$", "%", "{", "}", "(", ")", "${v0}", "%{v0}", "a", "b", "0", "1", "echo", "set", "if", "end", "while", "for", "in", "fn", "goto", ":l", "array", "\u{e9}", "\u{6f22}",
    "!include_files", "!print",
];

fn gen_raw(rng: &mut Rng, deep_ok: bool, deep_blocks_ok: bool) -> String {
    let mut s = String::new();
    // nesting depth of the input: up to 1500 always; far beyond only while the finding about unbounded recursion on
    // the nesting depth (conditions, calc) is not listed
    let depth = |rng: &mut Rng| if deep_ok && rng.chance(1, 3) { 20_000 + rng.usize(130_000) } else { 1 + rng.usize(1500) };
    match rng.below(13) {
        12 => {
            // blocks nested in blocks (the block scanner looks for the end of every one)
            let d = if deep_blocks_ok && rng.chance(1, 3) { 25_000 + rng.usize(40_000) } else { 1 + rng.usize(1200) };
            let open = *rng.pick(&["if true", "if false", "for i in ${arr}", "while false"]);
            for _ in 0..d {
                s.push_str(open);
                s.push('\n');
            }
            s.push_str("x = set inner\n");
            for _ in 0..(d - rng.usize(2).min(d)) {
                s.push_str("end\n");
            }
        }
        10 => {
            // deep parentheses in an arithmetic expression
            let d = depth(rng);
            s.push_str("x = calc ");
            s.push_str(&"(".repeat(d));
            s.push_str("1 + 1");
            s.push_str(&")".repeat(d - rng.usize(2).min(d)));
            s.push('\n');
        }
        11 => {
            // deep brackets / braces in a JSON text (any depth: the parser has its own limit)
            let d = if rng.chance(1, 3) { 5_000 + rng.usize(60_000) } else { 1 + rng.usize(1500) };
            let coll = if rng.chance(1, 2) { "--collection " } else { "" };
            if rng.chance(1, 2) {
                s.push_str(&format!("x = json_parse {}{}{}\n", coll, "[".repeat(d), "]".repeat(d)));
            } else {
                s.push_str(&format!("x = json_parse {}\"{}1{}\"\n", coll, "{\\\"a\\\":".repeat(d), "}".repeat(d)));
            }
            s.push_str("y = json_encode x\n");
        }
        0 => {
            // deep parentheses in a condition
            let d = depth(rng);
            s.push_str("x = set ");
            for _ in 0..d {
                s.push_str("( ");
            }
            s.push_str("true");
            for _ in 0..d {
                s.push_str(" )");
            }
            s.push_str("\nif ");
            for _ in 0..d {
                s.push_str("( ");
            }
            s.push_str("true");
            for _ in 0..(d - rng.usize(2).min(d)) {
                s.push_str(" )");
            }
            s.push_str("\nend\n");
        }
        1 => {
            // a very long line
            let n = 1000 + rng.usize(60_000);
            s.push_str("echo ");
            for i in 0..n {
                s.push(if i % 17 == 0 { ' ' } else { 'x' });
            }
            s.push('\n');
        }
        _ => {
            let m = if rng.chance(1, 3) { 400 } else { 60 };
            let n = rng.usize(m);
            for _ in 0..n {
                s.push_str(*rng.pick(&ALPHABET));
            }
        }
    }
    s
}

fn classify_budget(log: &[Event]) -> (bool, String, u64) {
    // (depth-0 log contains a loop construct / goto / function call / backward jump, command of the last depth-0 start, nested count inside it)
    let mut loops = false;
    let mut last_line: Option<usize> = None;
    let mut last_cmd = String::new();
    let mut nested = 0u64;
    for e in log {
        if let Event::Start { depth, cmd, line, handler, .. } = e {
            if *depth == 0 && !*handler {
                if let Some(l) = last_line {
                    if *line <= l {
                        loops = true;
                    }
                }
                last_line = Some(*line);
                last_cmd = cmd.clone();
                nested = 0;
                if cmd.contains("flowcontrol::While") || cmd.contains("flowcontrol::ForIn") || cmd.contains("flowcontrol::GoTo") || cmd.contains("flowcontrol::Function") {
                    loops = true;
                }
            } else if *depth > 0 {
                nested += 1;
            }
        }
    }
    (loops, last_cmd, nested)
}

/// running out of memory by asking for it is not reported: allocation-proportional arguments are capped
fn alloc_cap(core: &mut sim::Core, info: &sim::StartInfo) -> Option<duckscript::types::command::CommandResult> {
    if info.name == "std::random::Text" || info.name == "std::collections::Range" {
        // (between 10^5 and 10^12 elements the request would really be served, slowly, out of the sandbox's memory;
        // beyond that it cannot be served at all and must be refused by the command, not by a panic or an abort)
        let too_big = |a: &String| a.parse::<i128>().map(|n| n.unsigned_abs() > 100_000 && n.unsigned_abs() < 1_000_000_000_000).unwrap_or(false);
        if info.args.iter().any(too_big) {
            core.probe("allocation-proportional-argument-capped");
            return Some(duckscript::types::command::CommandResult::Error("dsim: allocation-proportional argument above the cap".to_string()));
        }
    }
    None
}

/// Commands that read the machine (clock, pid, host...) run for real, then their successful output is
/// replaced by a constant so that later lines see the same value in every execution of the run.
struct EnvStub;

impl sim::Observer for EnvStub {
    fn on_end(
        &mut self,
        core: &mut sim::Core,
        info: &sim::StartInfo,
        result: &mut duckscript::types::command::CommandResult,
        _v: &mut std::collections::HashMap<String, String>,
        _s: &mut std::collections::HashMap<String, duckscript::types::runtime::StateValue>,
        _e: &mut Env,
    ) {
        if core.redact.contains(&info.name) {
            if let duckscript::types::command::CommandResult::Continue(Some(v)) = result {
                let numeric = v.chars().all(|c| c.is_ascii_digit());
                *v = if numeric { "1700000000".to_string() } else { "simvalue".to_string() };
            }
        }
    }
}

fn wipe_jail(chrooted: bool) {
    // safety: only ever wipe a directory that is provably this worker's private jail: the root of a process that
    // chrooted itself at start-up (it stays chrooted for life - the marker file is NOT asked for: a script can move
    // or delete it, e.g. `mv . run/c07/x`, and a jail that is then never wiped again makes every later run of this
    // worker depend on its predecessors), or a directory under /dev/shm/dsim.*
    let cwd = match std::env::current_dir() {
        Ok(c) => c,
        Err(_) => {
            if chrooted {
                let _ = std::env::set_current_dir("/");
            }
            match std::env::current_dir() {
                Ok(c) => c,
                Err(_) => return,
            }
        }
    };
    let chroot_root = chrooted && cwd == std::path::Path::new("/");
    let private_dir = cwd.to_string_lossy().starts_with("/dev/shm/dsim.");
    if !chroot_root && !private_dir {
        return;
    }
    if let Ok(rd) = std::fs::read_dir(".") {
        for e in rd.flatten() {
            let p = e.path();
            let is_dir = std::fs::symlink_metadata(&p).map(|m| m.is_dir()).unwrap_or(false);
            if !is_dir && p.file_name().map(|n| n == ".dsim-jail").unwrap_or(false) {
                continue;
            }
            if is_dir {
                let _ = std::fs::remove_dir_all(&p);
            } else {
                let _ = std::fs::remove_file(&p);
            }
        }
    }
    if !std::path::Path::new(".dsim-jail").exists() {
        let _ = std::fs::write(".dsim-jail", b"");
    }
}

fn run_case(case: &Case, env: &WorkerEnv) -> Verdict {
    if !env.chrooted {
        let _ = std::env::set_current_dir(&env.jail_root);
    }
    // the working directory is the root of this worker's private jail: wipe all of it, since earlier runs
    // may have created entries anywhere below it through relative paths
    sim::phase("harness: wiping the jail");
    wipe_jail(env.chrooted);
    sim::phase("harness: preparing the run");
    let _ = std::fs::create_dir_all("run/c07");
    if env.chrooted {
        let _ = std::fs::create_dir_all("/tmp");
    }
    let saved_env = enter_fixed_env(case.odd_env);
    sim::reset(Some(Box::new(EnvStub)));
    if case.odd_env {
        sim::with_core(|c| c.fire("F15", "a variable of the process environment holds a value that is not UTF-8"));
    }
    sim::with_core(|c| {
        c.budget = STEP_BUDGET;
        c.byte_budget = 256 << 20;
        c.pre_hook = Some(alloc_cap);
        for n in [
            "std::time::CurrentTimeMillies", "std::process::ProcessID", "std::env::GetOSName", "std::env::GetOSRelease", "std::env::GetOSVersion", "std::env::GetOSFamily", "std::env::UName", "std::net::Hostname", "std::env::GetHomeDirectory",
            "std::env::GetCpuCount", "std::env::PrintCurrentDirectory", "std::env::GetUserName", "std::fs::GetLastModifiedTime", "std::fs::GetCanonicalPath", "std::debug::DuckscriptSDKVersion", "std::debug::DuckscriptVersion",
        ] {
            c.redact.insert(n.to_string());
        }
    });
    let mut context = gen::sdk_context();
    gen::add_sdk_commands(&mut context.commands, &EXTRA);
    if !env.chrooted {
        // guard-only mode: without a jail the file-system family stays out of reach
        let names: Vec<String> = context.commands.commands.keys().filter(|k| k.starts_with("std::fs")).cloned().collect();
        for n in names {
            context.commands.remove(&n);
        }
    }
    sim::decorate(&mut context.commands);
    let of: Vec<(u64, WriteFault)> = case.write_faults.iter().filter(|f| f.0 == 0).map(|f| (f.1, f.2.clone())).collect();
    let ef: Vec<(u64, WriteFault)> = case.write_faults.iter().filter(|f| f.0 == 1).map(|f| (f.1, f.2.clone())).collect();
    let out_w = SimWriter::new("out", of);
    let err_w = SimWriter::new("err", ef);
    let renv = Env::new(Some(Box::new(out_w.clone())), Some(Box::new(err_w.clone())), None);
    let result = std::panic::catch_unwind(std::panic::AssertUnwindSafe(|| match &case.workload {
        Workload::Raw(text) => runner::run_script(text, context, Some(renv)).map(|_| ()),
        Workload::Lines(lines) => {
            // consecutive runs on the returned context
            let mut cuts: Vec<usize> = case.cuts.iter().copied().filter(|c| *c > 0 && *c < lines.len()).collect();
            cuts.sort_unstable();
            cuts.dedup();
            cuts.push(lines.len());
            let mut ctx = context;
            let mut from = 0;
            let mut first_env = Some(renv);
            let mut res = Ok(());
            for (k, to) in cuts.iter().enumerate() {
                let mut text = lines[from..*to].join("\n");
                text.push('\n');
                from = *to;
                let env_k = match first_env.take() {
                    Some(e) => e,
                    None => Env::new(Some(Box::new(out_w.clone())), Some(Box::new(err_w.clone())), None),
                };
                if k > 0 {
                    sim::with_core(|c| c.probe("later-run-on-returned-context"));
                }
                match runner::run_script(&text, ctx, Some(env_k)) {
                    Ok(c) => ctx = c,
                    Err(e) => {
                        res = Err(e);
                        break;
                    }
                }
            }
            res
        }
        Workload::Deep { n, wrap, consumer } => {
            sim::with_core(|c| {
                c.quiet = true;
                c.budget = 50_000_000;
                c.probe("deeply-nested-collection");
            });
            sim::phase("long haul: deep collection");
            runner::run_script(&deep_text(*n, *wrap, *consumer), context, Some(renv)).map(|_| ())
        }
        Workload::SelfInclude => {
            let _ = std::fs::write("run/c07/self.ds", "echo before\n!include_files self.ds\necho after\n");
            sim::with_core(|c| c.probe("include-cycle"));
            runner::run_script_file("run/c07/self.ds", context, Some(renv)).map(|_| ())
        }
    }));
    leave_fixed_env(saved_env);
    wipe_jail(env.chrooted);
    match result {
        Err(_) => {
            let p = sim::take_panic().unwrap_or_default();
            Verdict::Fail { class: format!("panic@{}", sim::panic_site(&p)), detail: p }
        }
        Ok(r) => {
            let (budget_hit, log_info) = sim::with_core(|c| (c.budget_hit, classify_budget(&c.log)));
            sim::with_core(|c| {
                if r.is_err() {
                    c.probe("run-returned-error-value");
                }
                if c.log.iter().any(|e| matches!(e, Event::Write { res, .. } if res != "ok")) {
                    c.probe("writer-fault-fired");
                }
            });
            if budget_hit && sim::with_core(|c| c.byte_budget_hit) {
                // values or output growing without bound (e.g. dump_state inside a loop whose bookkeeping grows):
                // every command returned, the run as a whole is a loop or an explosion of sizes, not a hang
                sim::with_core(|c| c.probe("byte-budget"));
                return Verdict::Inconclusive { reason: "byte budget: outputs of more than 256 MiB in one run".to_string() };
            }
            if budget_hit {
                let (loops, last_cmd, nested) = log_info;
                if nested >= STEP_BUDGET / 2 && !last_cmd.contains("flowcontrol") && last_cmd != "end" {
                    return Verdict::Fail { class: format!("hang@{}", last_cmd), detail: format!("one invocation of {} performed {} nested invocations without finishing (step budget {})", last_cmd, nested, STEP_BUDGET) };
                }
                if loops {
                    return Verdict::Inconclusive { reason: "step budget in a run that loops at depth 0".to_string() };
                }
                return Verdict::Fail { class: "no-termination".to_string(), detail: format!("straight-line run exhausted the step budget (last command {}, {} nested)", last_cmd, nested) };
            }
            Verdict::Pass
        }
    }
}

pub struct C07;

impl Prop for C07 {
    fn id(&self) -> &'static str {
        "C07"
    }
    fn info(&self) -> PropInfo {
        PropInfo {
            level: "exploration",
            rule: "seeded scripts against the whole SDK minus the blocking / process-leaving commands (the environment commands, temp_file / temp_dir and test_directory are in: each run gets a small fixed process environment of its own, restored afterwards, and a /tmp inside the jail; one run in 30 starts with an environment variable whose value is not UTF-8, F15): (a) 1 run in 4: arbitrary text from a syntax-biased alphabet (CRLF/LF, control characters, pre-processor lines, deep parentheses, very long lines); (b) a prelude that builds live / released handles of every kind and files in the jail, then 1-25 library command lines whose arguments come from a typed pool per command family (numbers incl. negative / non-numeric / beyond i64, multi-byte text, empty, wrong-kind and released handles, option flags harvested from each command's usage line, jail paths) and from an untyped pool; out/err stream writes fail or are short at seed-chosen calls (F7); rarely a file that includes itself. Oracle: run_script returns under catch_unwind, the worker process survives, no single non-loop command performs >= 10000 nested invocations, a run without loop constructs finishes within 20000 steps, no native hang (a run that gives no answer within the time limit while executing a line that had completed earlier in the same run is a looping run and inconclusive, like one that exhausts the step budget in a loop). Non-trivial = >= 3 steps (and a writer fault fired when one was planned); distinct = distinct abstract traces",
            real: &["everything: parser, runner, the whole SDK minus S8 commands", "kernel tmpfs inside the chroot jail"],
            stub: &["out/err streams (SimWriter with fault plan)", "successful outputs of machine-reading commands (current_time, pid, hostname, os_*, get_last_modified_time, ...) are replaced by constants after the real command ran"],
            assumptions: &["removed because their purpose is to block, leave the process or change process-global state: read, sleep, exec, spawn, exit, watchdog, net/ftp/http, cd, set_env/unset_env, temp_dir/temp_file, test_directory/test_file, zip/unzip, chmod", "numbers that parse stay <= 100000 so that running out of memory by asking for it is not reported", "a budget hit in a run that loops at depth 0 is inconclusive, not a violation", "the larger part of this property is robustness to arguments (input generation); the simulator contributes writer faults, handle histories, the step budget, abort attribution and replay"],
            needs_jail: true,
            needs_duck: false,
            expected_probes: &["writer-fault-fired", "run-returned-error-value"],
        }
    }
    fn runs(&self, tier: &str) -> u64 {
        if tier == "quick" { 60_000 } else { 3_000_000 }
    }
    fn generate(&self, rng: &mut Rng, avoid: &[String]) -> Value {
        let workload = match rng.below(400) {
            0 if !avoid.iter().any(|a| a == "include_cycle") => Workload::SelfInclude,
            // (about four per quick run; the encoder is left out while its finding is listed)
            399 if rng.chance(1, 40) => {
                let consumer = loop {
                    let c = rng.below(4) as u8;
                    if !(c == 1 && avoid.iter().any(|a| a == "deep_data_json_encode")) {
                        break c;
                    }
                };
                Workload::Deep { n: 30_000 + rng.below(50_000) as u32, wrap: rng.below(3) as u8, consumer }
            }
            1..=99 => Workload::Raw(gen_raw(rng, !avoid.iter().any(|a| a == "deep_nesting"), !avoid.iter().any(|a| a == "deep_block_nesting"))),
            _ => Workload::Lines(gen_lines(rng, avoid)),
        };
        let write_faults = if rng.chance(1, 2) {
            let n = 1 + rng.usize(2);
            (0..n)
                .map(|_| {
                    let kind = match rng.below(6) {
                        0 => WriteFault::BrokenPipe,
                        1 => WriteFault::Interrupted,
                        2 => WriteFault::WouldBlock,
                        3 => WriteFault::Short,
                        4 => WriteFault::Zero,
                        _ => WriteFault::FlushError,
                    };
                    (if rng.chance(1, 6) { 1u8 } else { 0u8 }, rng.below(6), kind)
                })
                .collect()
        } else {
            vec![]
        };
        let mut workload = workload;
        let mut cuts = match &workload {
            Workload::Lines(lines) if rng.chance(1, 4) => (0..1 + rng.usize(2)).map(|_| PRELUDE.len() + rng.usize(lines.len() - PRELUDE.len() + 1)).collect(),
            _ => vec![],
        };
        if let Workload::Lines(lines) = &mut workload {
            if rng.chance(1, 25) {
                // a function defined far down a long script of one run, called (and jumped into) from a short script
                // of a later run on the same context: jump targets beyond the end of the later script
                let mut first: Vec<String> = PRELUDE.iter().map(|s| s.to_string()).collect();
                for k in 0..10 + rng.usize(120) {
                    first.push(match rng.below(3) {
                        0 => String::new(),
                        1 => "# filler".to_string(),
                        _ => format!("v2 = set {}", k),
                    });
                }
                first.push("fn farfn".to_string());
                first.push("    v3 = set in-function".to_string());
                first.push("    return ${1}".to_string());
                first.push("end".to_string());
                first.push(":farlabel".to_string());
                let cut = first.len();
                let tail: Vec<String> = lines.drain(PRELUDE.len()..).collect();
                first.push(rng.pick(&["r0 = farfn x", "farfn", "if farfn y", "goto :farlabel"]).to_string());
                if rng.chance(1, 2) {
                    first.push("end".to_string());
                }
                first.extend(tail);
                *lines = first;
                cuts = vec![cut];
            }
        }
        let odd_env = rng.chance(1, 30);
        serde_json::to_value(Case { entropy: rng.next_u64(), workload, write_faults, cuts, odd_env }).unwrap()
    }
    fn execute(&self, case: &Value, env: &WorkerEnv) -> Outcome {
        let case: Case = match serde_json::from_value(case.clone()) {
            Ok(c) => c,
            Err(e) => return Outcome::collect(Verdict::Inconclusive { reason: format!("bad case: {}", e) }, false),
        };
        unsafe {
            // an argument-proportional allocation must not take the sandbox down with it
            let r = libc::rlimit { rlim_cur: 3 << 30, rlim_max: 3 << 30 };
            libc::setrlimit(libc::RLIMIT_AS, &r);
        }
        let verdict = run_case(&case, env);
        let _ = sim::take_observer();
        Outcome::collect(verdict, false)
    }
    fn shrink(&self, case: &Value) -> Vec<Value> {
        let case: Case = match serde_json::from_value(case.clone()) {
            Ok(c) => c,
            Err(_) => return vec![],
        };
        let mut out: Vec<Case> = vec![];
        if !case.cuts.is_empty() {
            let mut c = case.clone();
            c.cuts.clear();
            out.push(c);
        }
        if case.odd_env {
            let mut c = case.clone();
            c.odd_env = false;
            out.push(c);
        }
        if !case.write_faults.is_empty() {
            let mut c = case.clone();
            c.write_faults.clear();
            out.push(c);
            for k in 0..case.write_faults.len() {
                let mut c = case.clone();
                c.write_faults.remove(k);
                out.push(c);
            }
        }
        match &case.workload {
            Workload::Lines(lines) => {
                let n = lines.len();
                if n > 4 {
                    let mut c = case.clone();
                    c.workload = Workload::Lines(lines[n / 2..].to_vec());
                    out.push(c);
                    let mut c = case.clone();
                    c.workload = Workload::Lines(lines[..n / 2].to_vec());
                    out.push(c);
                }
                for i in (0..n).rev() {
                    let mut v = lines.clone();
                    v.remove(i);
                    let mut c = case.clone();
                    c.workload = Workload::Lines(v);
                    out.push(c);
                }
                // drop trailing arguments of a line
                for i in 0..n {
                    let toks: Vec<&str> = lines[i].split(' ').collect();
                    if toks.len() > 3 && !lines[i].contains('"') {
                        let mut v = lines.clone();
                        v[i] = toks[..toks.len() - 1].join(" ");
                        let mut c = case.clone();
                        c.workload = Workload::Lines(v);
                        out.push(c);
                    }
                    if let Some(rest) = lines[i].strip_prefix("r0 = ").or_else(|| lines[i].strip_prefix("r1 = ")).or_else(|| lines[i].strip_prefix("r2 = ")).or_else(|| lines[i].strip_prefix("r3 = ")) {
                        let mut v = lines.clone();
                        v[i] = rest.to_string();
                        let mut c = case.clone();
                        c.workload = Workload::Lines(v);
                        out.push(c);
                    }
                }
            }
            Workload::Raw(text) => {
                let chars: Vec<char> = text.chars().collect();
                let n = chars.len();
                if n > 1 {
                    for (a, b) in [(0, n / 2), (n / 2, n), (0, n * 3 / 4), (n / 4, n)] {
                        let mut c = case.clone();
                        c.workload = Workload::Raw(chars[a..b].iter().collect());
                        out.push(c);
                    }
                    if n <= 60 {
                        for i in 0..n {
                            let mut v = chars.clone();
                            v.remove(i);
                            let mut c = case.clone();
                            c.workload = Workload::Raw(v.into_iter().collect());
                            out.push(c);
                        }
                    }
                }
            }
            Workload::SelfInclude => {}
            Workload::Deep { n, wrap, consumer } => {
                for m in [*n / 2, *n * 3 / 4] {
                    if m >= 500 {
                        let mut c = case.clone();
                        c.workload = Workload::Deep { n: m, wrap: *wrap, consumer: *consumer };
                        out.push(c);
                    }
                }
            }
        }
        if case.entropy != 0 {
            let mut c = case.clone();
            c.entropy = 0;
            out.push(c);
        }
        out.into_iter().filter(|c| *c != case).map(|c| serde_json::to_value(c).unwrap()).collect()
    }
    fn warm_up(&self) {
        // the full registry behind `add_sdk_commands` is built lazily: on the worker's main thread, never in a run
        let mut c = gen::sdk_commands();
        gen::add_sdk_commands(&mut c, &EXTRA);
        // the same for the lazily built tables inside the SDK's dependencies (a properties parser, regular
        // expressions, ...): whichever run first reaches one would create hash maps that later runs do not, and
        // every hash map created shifts the thread's key counter - the order in which `print_env` lists the
        // environment then depends on what an earlier run in the same process happened to call. Every command is
        // called here a few times with harmless arguments, each call a run of its own
        let saved = enter_fixed_env(false);
        let _ = std::fs::create_dir_all("run/c07");
        let _ = std::fs::write("run/c07/w.properties", "a=1\nb.c=2\n");
        let _ = std::fs::write("run/c07/w.json", "{\"a\":[1,{\"b\":null}]}");
        let mut names: Vec<String> = c.commands.keys().cloned().collect();
        names.sort();
        let hook = std::panic::take_hook();
        std::panic::set_hook(Box::new(|_| {}));
        // once on this thread, then on eight threads of their own, one after the other. The regular expression
        // crate keeps its matching caches (hash maps again) in a pool per expression: the first thread to use an
        // expression owns one slot, every other thread takes a cache from one of eight shared stacks - chosen by a
        // per-thread number that counts the threads that ever used an expression - and creates one only when that
        // stack is empty. Without this a run's hash order would depend on how many earlier runs in the same process
        // had used an expression (found by the determinism recheck: `print_env` listed the environment in another
        // order after certain predecessors). Eight consecutive threads fill all eight stacks
        const ALL: [&str; 11] = ["", "a", "a b", "run/c07/w.properties", "run/c07/w.json x", "1 2 3", "\"a=1\" b", "{\"a\":[1]}", "--collection {\"a\":[1]}", "1.2.3 1.2.4", "run/c07/*.json"];
        let pass = |names: Vec<String>, variants: &[&str]| {
        for n in names {
            for args in variants {
                let mut context = gen::sdk_context();
                gen::add_sdk_commands(&mut context.commands, &EXTRA);
                let text = format!("h = map\nmap_put ${{h}} k v\nx = {} {}\ny = {} ${{h}}\n", n, args, n);
                let renv = Env::new(Some(Box::new(std::io::sink())), Some(Box::new(std::io::sink())), None);
                let _ = std::panic::catch_unwind(std::panic::AssertUnwindSafe(|| runner::run_script(&text, context, Some(renv)).map(|_| ())));
            }
        }
        };
        pass(names.clone(), &ALL);
        for _ in 0..8 {
            let names = names.clone();
            let _ = std::thread::Builder::new().stack_size(8 << 20).spawn(move || pass(names, &["a", "\"a=1\" b", "--prefix p \"a=1\""])).map(|h| h.join());
        }
        std::panic::set_hook(hook);
        leave_fixed_env(saved);
        let _ = std::fs::remove_dir_all("run");
    }
    fn known_match(&self, matcher: &str, case: &Value, class: &str, _detail: &str) -> bool {
        let case: Case = match serde_json::from_value(case.clone()) {
            Ok(c) => c,
            Err(_) => return false,
        };
        // site matchers: "site:<class>" matches a violation with exactly that class (panic location / hang command)
        if let Some(site) = matcher.strip_prefix("site:") {
            return class == site;
        }
        match matcher {
            "include_cycle" => matches!(case.workload, Workload::SelfInclude) && class.starts_with("abort:"),
            // a value with a line break handed to a script-implemented command whose loop condition is re-serialised without it
            "crlf_value_hang" => {
                (class == "hang@std::fs::JoinPath" || class == "hang@std::fs::CPGlob")
                    && match &case.workload {
                        Workload::Lines(lines) => lines.iter().any(|l| l.contains("\\r") || l.contains("\\n")),
                        Workload::Raw(t) => t.contains('\r') || t.contains("\\r") || t.contains("\\n"),
                        _ => false,
                    }
            }
            // a user function named like a flag value is invoked by "if ${flag}" inside script-implemented commands,
            // with the line numbers of another instruction list: unbounded native recursion
            "function_named_like_flag" => {
                (class.starts_with("abort:") || class == "hang:native")
                    && match &case.workload {
                        Workload::Lines(lines) => defines_flag_function(lines),
                        Workload::Raw(t) => defines_flag_function(&t.lines().map(|l| l.to_string()).collect::<Vec<_>>()),
                        _ => false,
                    }
            }
            // thousands of blocks nested in each other
            "deep_block_nesting" => {
                (class.starts_with("abort:") || class == "hang:native")
                    && match &case.workload {
                        Workload::Raw(t) => t.lines().filter(|l| l.starts_with("if ") || l.starts_with("for ") || l.starts_with("while ")).count() > 3000,
                        _ => false,
                    }
            }
            // a collection nested tens of thousands of levels deep handed to the JSON encoder
            "deep_data_json_encode" => class.starts_with("abort:") && matches!(case.workload, Workload::Deep { consumer: 1, .. }),
            // the nesting depth of the input is the recursion depth of the condition evaluator and of calc's parser
            "deep_nesting" => {
                class.starts_with("abort:")
                    && match &case.workload {
                        Workload::Raw(t) => {
                            let mut d = 0i64;
                            let mut max = 0i64;
                            for ch in t.chars() {
                                if ch == '(' {
                                    d += 1;
                                    max = max.max(d);
                                } else if ch == ')' {
                                    d -= 1;
                                }
                            }
                            max > 5000
                        }
                        _ => false,
                    }
            }
            // an alias whose expansion reaches itself recurses without bound: the run defines an alias and the process aborted or hung
            "alias_cycle" => {
                (class.starts_with("abort:") || class == "hang:native")
                    && match &case.workload {
                        Workload::Lines(lines) => lines.iter().any(|l| l.split(' ').any(|t| t == "alias" || t == "std::lib::alias::Set")),
                        Workload::Raw(t) => t.contains("alias"),
                        _ => false,
                    }
            }
            _ => false,
        }
    }
}

pub fn _unused(_: BTreeMap<String, String>) {}
