//! C15 - the command registry is a consistent name/alias map (Appendix D.5).
//! Level 1: the public `Commands` API with stub commands. Level 2: the script-level commands
//! alias / unalias / remove_command / is_command_defined / function definitions over the SDK.

use crate::prop::{Outcome, Prop, PropInfo, Verdict, WorkerEnv};
use crate::props::ops::{s, OpWorld, Out, Want};
use crate::rng::Rng;
use crate::sim;
use duckscript::types::command::{Command, Commands};
use serde::{Deserialize, Serialize};
use serde_json::Value;
use std::collections::{BTreeMap, BTreeSet};

#[derive(Serialize, Deserialize, Clone, Debug, PartialEq)]
pub enum Op1 {
    Set { name: String, aliases: Vec<String>, id: u32 },
    Get(String),
    Exists(String),
    GetForUse(String),
    Remove(String),
    Names,
}

#[derive(Serialize, Deserialize, Clone, Debug, PartialEq)]
pub enum Op2 {
    Alias(String, Vec<String>),
    Unalias(String),
    RemoveCommand(String),
    IsDefined(String),
    /// execute the definition line of function f<k>
    DefineFn(usize),
    /// invoke a command by name with one argument and look at whether it is found
    Invoke(String),
    /// execute the definition line of a function whose `end` is missing: the definition fails and must leave nothing
    /// in the registry
    DefineEndless,
    /// one run in which the same line is executed twice and the name it invokes is re-pointed in between
    /// (alias tmpa -> set one; line; unalias; alias tmpa -> set two; same line again): the second pass must resolve
    /// the name afresh
    RebindBetweenPasses(bool),
}

#[derive(Serialize, Deserialize, Clone, Debug, PartialEq)]
pub enum Ops {
    L1(Vec<Op1>),
    L2(Vec<Op2>),
    /// level 2 operations, each executed as its own top-level run on the context returned by the previous run;
    /// the flag says whether that run ends through the `exit` command
    L3(Vec<(Op2, bool)>),
}

#[derive(Serialize, Deserialize, Clone, Debug, PartialEq)]
pub struct Case {
    pub entropy: u64,
    pub ops: Ops,
}

#[derive(Clone)]
struct Stub {
    name: String,
    aliases: Vec<String>,
    id: u32,
}

impl Command for Stub {
    fn name(&self) -> String {
        self.name.clone()
    }
    fn aliases(&self) -> Vec<String> {
        self.aliases.clone()
    }
    fn help(&self) -> String {
        format!("stub#{}", self.id)
    }
    fn clone_and_box(&self) -> Box<dyn Command> {
        Box::new(self.clone())
    }
}

/// the model: name table + alias table
#[derive(Clone, Debug, Default, PartialEq)]
struct Model {
    names: BTreeMap<String, String>,
    aliases: BTreeMap<String, String>,
}

impl Model {
    fn resolve(&self, x: &str) -> String {
        self.aliases.get(x).cloned().unwrap_or_else(|| x.to_string())
    }
    fn exists(&self, x: &str) -> bool {
        self.names.contains_key(&self.resolve(x))
    }
    /// returns whether the registration is accepted
    fn set(&mut self, name: &str, aliases: &[String], ident: &str) -> bool {
        if self.names.contains_key(name) || aliases.iter().any(|a| self.aliases.contains_key(a)) {
            return false;
        }
        self.names.insert(name.to_string(), ident.to_string());
        self.aliases.remove(name);
        for a in aliases {
            self.aliases.insert(a.clone(), name.to_string());
        }
        true
    }
    fn remove(&mut self, x: &str) -> bool {
        let target = self.resolve(x);
        if self.names.remove(&target).is_some() {
            self.aliases.retain(|_, t| *t != target);
            true
        } else {
            false
        }
    }
}

fn compare_tables(real: &Commands, m: &Model, ident: impl Fn(&dyn Command) -> String, after: &str) -> Option<(String, String)> {
    let real_names: BTreeMap<String, String> = real.commands.iter().map(|(k, v)| (k.clone(), ident(v.as_ref()))).collect();
    if real_names != m.names {
        let only_real: Vec<_> = real_names.iter().filter(|(k, v)| m.names.get(*k) != Some(*v)).collect();
        let only_model: Vec<_> = m.names.iter().filter(|(k, v)| real_names.get(*k) != Some(*v)).collect();
        return Some(("state-mismatch".to_string(), format!("after {}: name table differs: only/other in registry {:?}, only/other in model {:?}", after, only_real, only_model)));
    }
    let real_aliases: BTreeMap<String, String> = real.aliases.iter().map(|(k, v)| (k.clone(), v.clone())).collect();
    if real_aliases != m.aliases {
        let only_real: Vec<_> = real_aliases.iter().filter(|(k, v)| m.aliases.get(*k) != Some(*v)).collect();
        let only_model: Vec<_> = m.aliases.iter().filter(|(k, v)| real_aliases.get(*k) != Some(*v)).collect();
        return Some(("state-mismatch".to_string(), format!("after {}: alias table differs: registry has {:?}, model has {:?}", after, only_real, only_model)));
    }
    for (a, t) in real.aliases.iter() {
        if !real.commands.contains_key(t) {
            return Some(("dangling-alias".to_string(), format!("after {}: alias {} points to {} which is not registered", after, a, t)));
        }
    }
    None
}

const NAMES1: [&str; 8] = ["n0", "n1", "n2", "n3", "n4", "pkg::a", "", " "];
const ALIASES1: [&str; 11] = ["n0", "n1", "n2", "n3", "n4", "x", "y", "z", "pkg::a", "ext::tool", "n1::x"];

fn run_l1(ops: &[Op1]) -> Verdict {
    let mut real = Commands::new();
    let mut m = Model::default();
    for (i, op) in ops.iter().enumerate() {
        let label = format!("op #{} {:?}", i, op);
        let mut problem: Option<(String, String)> = None;
        let mut note = String::new();
        match op {
            Op1::Set { name, aliases, id } => {
                let before = m.clone();
                let free_name = !m.names.contains_key(name);
                let ok = m.set(name, aliases, &format!("stub#{}", id));
                let r = real.set(Box::new(Stub { name: name.clone(), aliases: aliases.clone(), id: *id }));
                note = format!("{}", if r.is_ok() { "Ok" } else { "Err" });
                if r.is_ok() != ok {
                    problem = Some(("output-mismatch".to_string(), format!("{}: registry answered {}, model {}", label, note, if ok { "Ok" } else { "Err" })));
                }
                if !ok {
                    sim::with_core(|c| {
                        *c.fired.entry("F11".to_string()).or_insert(0) += 1;
                        if free_name {
                            c.probe("refused-by-alias-conflict-name-free");
                        }
                    });
                    debug_assert!(before == m);
                } else if before.aliases.contains_key(name) {
                    sim::with_core(|c| c.probe("name-equals-existing-alias"));
                }
            }
            Op1::Get(x) | Op1::GetForUse(x) => {
                let want = m.names.get(&m.resolve(x)).cloned();
                let got = match op {
                    Op1::Get(_) => real.get(x).map(|c| c.help()),
                    _ => real.get_for_use(x).map(|c| c.help()),
                };
                note = format!("{:?}", got);
                if got != want {
                    problem = Some(("output-mismatch".to_string(), format!("{}: got {:?}, model {:?}", label, got, want)));
                }
            }
            Op1::Exists(x) => {
                let got = real.exists(x);
                note = got.to_string();
                if got != m.exists(x) {
                    problem = Some(("output-mismatch".to_string(), format!("{}: got {}, model {}", label, got, m.exists(x))));
                }
            }
            Op1::Remove(x) => {
                let target = m.resolve(x);
                if m.aliases.contains_key(x) && m.names.contains_key(&target) {
                    sim::with_core(|c| c.probe("removal-by-alias"));
                }
                let want = m.remove(x);
                let got = real.remove(x);
                note = got.to_string();
                if got != want {
                    problem = Some(("output-mismatch".to_string(), format!("{}: got {}, model {}", label, got, want)));
                }
                if !want {
                    sim::with_core(|c| *c.fired.entry("F11".to_string()).or_insert(0) += 1);
                }
            }
            Op1::Names => {
                let got = real.get_all_command_names();
                let want: Vec<String> = m.names.keys().cloned().collect();
                note = format!("{:?}", got);
                if got != want {
                    problem = Some(("output-mismatch".to_string(), format!("{}: got {:?}, model {:?}", label, got, want)));
                }
            }
        }
        sim::with_core(|c| {
            let seq = c.next_seq();
            c.log.push(sim::Event::Op { seq, op: format!("{:?}", op).split(|ch: char| !ch.is_alphanumeric()).next().unwrap_or("").to_string(), args: vec![format!("{:?}", op)], got: note.clone(), want: String::new() });
        });
        if problem.is_none() {
            problem = compare_tables(&real, &m, |c| c.help(), &label);
        }
        if let Some((class, detail)) = problem {
            return Verdict::Fail { class, detail };
        }
    }
    Verdict::Pass
}

// ------------------------------------------------------------------ level 2

// (blank names: what an undefined variable expands to)
const L2_NAMES: [&str; 9] = ["g0", "g1", "g2", "echo", "std::Echo", "noop", "f0", "", " "];
// alias targets are full command names that are never alias names themselves: a cyclic alias chain recurses
// without bound when invoked (a C07 matter, recorded there), which would only kill workers here
const L2_TARGETS: [&str; 3] = ["std::var::Set", "std::Noop", "std::string::Equals"];
const N_FNS: usize = 3;

fn sync_model(real: &Commands) -> Model {
    Model {
        names: real.commands.iter().map(|(k, v)| (k.clone(), v.name())).collect(),
        aliases: real.aliases.iter().map(|(k, v)| (k.clone(), v.clone())).collect(),
    }
}

fn run_l2(ops: &[Op2], exits: Option<&[bool]>) -> Verdict {
    let mut world = OpWorld::new_sdk();
    if exits.is_some() {
        // the `exit` command is kept out of the simulated worlds in general; here it is what ends a run
        let mut full = Commands::new();
        duckscriptsdk::load(&mut full).expect("sdk load");
        if let Some(exit) = full.get_for_use("exit") {
            let _ = world.ctx.commands.set(exit);
            sim::decorate(&mut world.ctx.commands);
        }
    }
    // the instruction list the function definitions live in: `fn f<k>` at line 2k, `end` at 2k+1
    let mut text = String::new();
    for k in 0..N_FNS {
        text.push_str(&format!("fn f{}\nend\n", k));
    }
    // (last line: a definition without end)
    text.push_str("fn endless\n");
    let instructions = duckscript::parser::parse_text(&text).expect("parse");
    let mut m = sync_model(&world.ctx.commands);
    // names created through `alias`
    let mut created: BTreeSet<String> = BTreeSet::new();
    let mut defined_fn: BTreeSet<usize> = BTreeSet::new();
    let ident = |c: &dyn Command| c.name();
    for (i, op) in ops.iter().enumerate() {
        let label = format!("op #{} {:?}", i, op);
        let mut resync = false;
        if let Some(e) = exits {
            world.run_mode = Some(e.get(i).copied().unwrap_or(false));
            if world.run_mode == Some(true) {
                sim::with_core(|c| c.probe("run-ended-by-exit-then-context-reused"));
            }
        }
        match op {
            Op2::Alias(n, rest) => {
                let mut args = vec![n.clone()];
                args.extend(rest.iter().cloned());
                if rest.is_empty() {
                    world.op("alias", &args, &Want::Fail, &args);
                } else {
                    let before = m.clone();
                    let ok = m.set(n, &[], n);
                    if ok {
                        world.op("alias", &args, &Want::True, &args);
                        created.insert(n.clone());
                        if before.aliases.contains_key(n) {
                            sim::with_core(|c| c.probe("alias-name-equals-existing-alias"));
                        }
                    } else {
                        world.op("alias", &args, &Want::Fail, &args);
                        sim::with_core(|c| *c.fired.entry("F11".to_string()).or_insert(0) += 1);
                    }
                }
            }
            Op2::Unalias(n) => {
                let was_created = created.contains(n);
                if was_created && m.names.contains_key(&m.resolve(n)) && !m.aliases.contains_key(n) {
                    world.op("unalias", &[n.clone()], &Want::True, &[n.clone()]);
                    m.remove(n);
                    created.remove(n);
                } else if !was_created && !m.aliases.contains_key(n) {
                    // neither created by alias nor an alias: refused, unchanged
                    world.op("unalias", &[n.clone()], &Want::False, &[n.clone()]);
                    sim::with_core(|c| *c.fired.entry("F11".to_string()).or_insert(0) += 1);
                } else if !was_created && m.aliases.contains_key(n) {
                    // a bare alias: it is gone afterwards, its command stays
                    world.op("unalias", &[n.clone()], &Want::True, &[n.clone()]);
                    m.aliases.remove(n);
                    sim::with_core(|c| c.probe("unalias-bare-alias"));
                } else {
                    // created by alias but meanwhile removed / shadowed: the statement does not settle it
                    world.op("unalias", &[n.clone()], &Want::TrueOrFalse, &[n.clone()]);
                    resync = true;
                }
            }
            Op2::RemoveCommand(x) => {
                let want = m.remove(x);
                world.op("remove_command", &[x.clone()], &if want { Want::True } else { Want::False }, &[x.clone()]);
                if !want {
                    sim::with_core(|c| *c.fired.entry("F11".to_string()).or_insert(0) += 1);
                }
            }
            Op2::IsDefined(x) => {
                let want = m.exists(x);
                world.op("is_command_defined", &[x.clone()], &if want { Want::True } else { Want::False }, &[x.clone()]);
            }
            Op2::Invoke(x) if exits.is_some() && (!m.exists(x) || x.starts_with('f')) => {
                let want = m.exists(x);
                world.op("is_command_defined", &[x.clone()], &if want { Want::True } else { Want::False }, &[x.clone()]);
            }
            Op2::Invoke(x) => {
                // a command that is reachable must be found (whatever it answers); one that is not must crash "not found"
                let got = world.run(x, &[s("v")]);
                let found = !matches!(&got, Out::Crash(msg) if msg.contains("not found"));
                sim::with_core(|c| {
                    let seq = c.next_seq();
                    c.log.push(sim::Event::Op { seq, op: "invoke".to_string(), args: vec![x.clone()], got: if found { "found".to_string() } else { "not-found".to_string() }, want: String::new() });
                    if found != m.exists(x) {
                        c.violate("output-mismatch", format!("{}: command lookup says {}, model {}", label, found, m.exists(x)));
                    }
                });
            }
            Op2::RebindBetweenPasses(removed_second) => {
                // second variant: the name is gone at the second pass - the run must fail at that line
                let text = format!(
                    "alias tmpa set one\nc = set 0\n:again\nr = tmpa\nout = set \"${{out}}${{r}},\"\nunalias tmpa\n{}c = calc ${{c}} + 1\nif equals ${{c}} 1\n    goto :again\nend\nunalias tmpa\n",
                    if *removed_second { "" } else { "alias tmpa set two\n" }
                );
                world.ctx.variables.remove("out");
                let snapshot = (world.ctx.commands.clone(), world.ctx.variables.clone(), world.ctx.state.clone());
                let got = world.run_text(&text);
                sim::with_core(|c| {
                    let seq = c.next_seq();
                    c.log.push(sim::Event::Op { seq, op: "rebind-between-passes".to_string(), args: vec![removed_second.to_string()], got: got.show(), want: if *removed_second { "run fails: command not found".to_string() } else { "one,two,".to_string() } });
                    c.probe("line-executed-twice-name-re-pointed-in-between");
                    match (&got, *removed_second) {
                        (Out::Val(v), false) if v == "one,two," => {}
                        (Out::Crash(_), true) => {}
                        _ => c.violate("output-mismatch", format!("{}: the second pass over the line gave {}", label, got.show())),
                    }
                });
                if matches!(got, Out::Crash(_)) {
                    // the failed run took the context with it: continue on the state before it
                    world.ctx.commands = snapshot.0;
                    world.ctx.variables = snapshot.1;
                    world.ctx.state = snapshot.2;
                }
                world.ctx.variables.remove("out");
                world.ctx.variables.remove("r");
                world.ctx.variables.remove("c");
            }
            Op2::DefineEndless => {
                if exits.is_none() {
                    let line = 2 * N_FNS;
                    let (result, _) = duckscript::runner::run_instruction(&mut world.ctx.commands, &mut world.ctx.variables, &mut world.ctx.state, &instructions, instructions[line].clone(), line, &mut world.env);
                    let kind = sim::result_kind(&result).to_string();
                    sim::with_core(|c| {
                        let seq = c.next_seq();
                        c.log.push(sim::Event::Op { seq, op: "fn".to_string(), args: vec!["endless".to_string()], got: kind.clone(), want: "Crash or Error".to_string() });
                        c.probe("fn-definition-without-end");
                        if kind != "Crash" && kind != "Error" {
                            c.violate("output-mismatch", format!("{}: a definition without end answered {}", label, kind));
                        }
                    });
                    // the tables are compared below: nothing may have been registered
                }
            }
            Op2::DefineFn(k) => {
                let name = format!("f{}", k);
                let line = 2 * k;
                // a definition counts as new whenever the registry (by the model) does not know the name: also after the
                // function was removed again, and after an earlier attempt was refused and the name became free since
                let first = !defined_fn.contains(k) || !m.exists(&name);
                let kind = if let Some(e) = exits {
                    // the definition is its own run; refused definitions answer Error, which the runner survives
                    let before = world.ctx.commands.commands.len();
                    let text = format!("fn {}\nend\n{}", name, if e.get(i).copied().unwrap_or(false) { "exit\n" } else { "" });
                    let out = world.run_text(&text);
                    if matches!(out, Out::Crash(_)) {
                        "Crash".to_string()
                    } else if world.ctx.commands.commands.len() > before {
                        "GoToLine".to_string()
                    } else {
                        "Error".to_string()
                    }
                } else {
                    let (result, _) = duckscript::runner::run_instruction(
                        &mut world.ctx.commands,
                        &mut world.ctx.variables,
                        &mut world.ctx.state,
                        &instructions,
                        instructions[line].clone(),
                        line,
                        &mut world.env,
                    );
                    sim::result_kind(&result).to_string()
                };
                sim::with_core(|c| {
                    let seq = c.next_seq();
                    c.log.push(sim::Event::Op { seq, op: "fn".to_string(), args: vec![name.clone()], got: kind.clone(), want: String::new() });
                });
                if first {
                    let ok = m.set(&name, &[], &name);
                    let real_ok = kind == "GoToLine";
                    if ok != real_ok {
                        sim::with_core(|c| c.violate("output-mismatch", format!("{}: definition answered {}, model expects {}", label, kind, if ok { "accepted" } else { "refused" })));
                    }
                    if ok {
                        defined_fn.insert(*k);
                    } else {
                        sim::with_core(|c| {
                            *c.fired.entry("F11".to_string()).or_insert(0) += 1;
                            c.probe("fn-definition-refused");
                        });
                        // a refused definition may have left function meta data behind; later executions of the
                        // line are outside what the statement settles
                        defined_fn.insert(*k);
                    }
                } else {
                    // executing the same definition line again: not settled by the statement
                    resync = true;
                }
            }
        }
        if let Some(v) = sim::with_core(|c| c.violation.clone()) {
            return Verdict::Fail { class: v.0, detail: v.1 };
        }
        if resync {
            // unconstrained effect: adopt the real tables, but the invariant still has to hold
            m = sync_model(&world.ctx.commands);
        }
        if let Some((class, detail)) = compare_tables(&world.ctx.commands, &m, ident, &label) {
            return Verdict::Fail { class, detail };
        }
    }
    Verdict::Pass
}

pub struct C15;

fn gen_l1(rng: &mut Rng) -> Vec<Op1> {
    let long_history = rng.chance(1, 60);
    let n = match rng.below(4) {
        _ if long_history => 60 + rng.usize(60),
        0 | 1 => 1 + rng.usize(5),
        2 => 3 + rng.usize(9),
        _ => 8 + rng.usize(20),
    };
    let mut id = 0;
    (0..n)
        .map(|_| match rng.below(12) {
            0..=5 => {
                id += 1;
                let k = if rng.chance(1, 40) { 9 + rng.usize(4) } else { rng.usize(3) };
                let mut aliases: Vec<String> = (0..k).map(|_| rng.pick(&ALIASES1).to_string()).collect();
                aliases.dedup();
                Op1::Set { name: rng.pick(&NAMES1).to_string(), aliases, id }
            }
            6 => Op1::Get(rng.pick(&ALIASES1).to_string()),
            7 => Op1::Exists(rng.pick(&ALIASES1).to_string()),
            8 => Op1::GetForUse(rng.pick(&ALIASES1).to_string()),
            9 | 10 => Op1::Remove(rng.pick(&ALIASES1).to_string()),
            _ => Op1::Names,
        })
        .collect()
}

fn gen_l2(rng: &mut Rng) -> Vec<Op2> {
    let m = if rng.chance(1, 2) { 6 } else { 25 };
    let n = 1 + rng.usize(m);
    (0..n)
        .map(|_| match rng.below(12) {
            0..=3 => {
                let k = if rng.chance(1, 10) { 0 } else { 1 + rng.usize(2) };
                let mut rest = vec![];
                if k > 0 {
                    rest.push(rng.pick(&L2_TARGETS).to_string());
                    for _ in 1..k {
                        rest.push("arg".to_string());
                    }
                }
                Op2::Alias(rng.pick(&L2_NAMES).to_string(), rest)
            }
            4 | 5 => Op2::Unalias(rng.pick(&L2_NAMES).to_string()),
            6 | 7 => Op2::RemoveCommand(rng.pick(&L2_NAMES).to_string()),
            8 => Op2::IsDefined(rng.pick(&L2_NAMES).to_string()),
            9 => Op2::Invoke(rng.pick(&["g0", "g1", "g2", "f0", "f1"]).to_string()),
            10 if rng.chance(1, 3) => Op2::DefineEndless,
            11 if rng.chance(1, 3) => Op2::RebindBetweenPasses(rng.chance(1, 3)),
            _ => Op2::DefineFn(rng.usize(N_FNS)),
        })
        .collect()
}

impl Prop for C15 {
    fn id(&self) -> &'static str {
        "C15"
    }
    fn info(&self) -> PropInfo {
        PropInfo {
            level: "exploration",
            rule: "seeded histories. Level 1 (2 of 3 runs): 1-28 calls of Commands::set/get/exists/get_for_use/remove/get_all_command_names with stub commands over five names and alias sets drawn from the same five strings plus three (names collide with other commands' aliases); level 2: 1-25 script-level operations alias/unalias/remove_command/is_command_defined/function definitions/invocations over the SDK registry. After EVERY step the answer and both public tables (Commands.commands, Commands.aliases) are compared in full with a name table + alias table model, and no alias may point to a missing command. Faults: refused registrations and removals, hash order. Non-trivial = >= 3 operations; distinct = distinct abstract traces",
            real: &["duckscript::types::command::Commands", "SDK lib::alias::{set,unset}, lib::command::remove, is_command_defined, flowcontrol::function (definition line)"],
            stub: &["level 1: the registered commands themselves (identity-carrying stubs)"],
            assumptions: &["thin fault space: sequential refinement, hash order is the only nondeterminism", "unalias of a name created by alias whose command was meanwhile removed, and re-executing a function definition line, are not settled by the statement: the model adopts the real tables there (invariants still checked)"],
            needs_jail: false,
            needs_duck: false,
            expected_probes: &["refused-by-alias-conflict-name-free", "name-equals-existing-alias", "removal-by-alias", "unalias-bare-alias", "fn-definition-refused"],
        }
    }
    fn runs(&self, tier: &str) -> u64 {
        if tier == "quick" { 60_000 } else { 3_000_000 }
    }
    fn generate(&self, rng: &mut Rng, _avoid: &[String]) -> Value {
        let ops = match rng.below(6) {
            0..=3 => Ops::L1(gen_l1(rng)),
            4 => Ops::L2(gen_l2(rng)),
            _ => Ops::L3(gen_l2(rng).into_iter().map(|o| (o, rng.chance(1, 3))).collect()),
        };
        serde_json::to_value(Case { entropy: rng.next_u64(), ops }).unwrap()
    }
    fn execute(&self, case: &Value, _env: &WorkerEnv) -> Outcome {
        let case: Case = match serde_json::from_value(case.clone()) {
            Ok(c) => c,
            Err(e) => return Outcome::collect(Verdict::Inconclusive { reason: format!("bad case: {}", e) }, false),
        };
        let res = std::panic::catch_unwind(std::panic::AssertUnwindSafe(|| match &case.ops {
            Ops::L1(ops) => run_l1(ops),
            Ops::L2(ops) => run_l2(ops, None),
            Ops::L3(pairs) => {
                let ops: Vec<Op2> = pairs.iter().map(|p| p.0.clone()).collect();
                let exits: Vec<bool> = pairs.iter().map(|p| p.1).collect();
                run_l2(&ops, Some(&exits))
            }
        }));
        let verdict = match res {
            Ok(v) => v,
            Err(_) => {
                let p = sim::take_panic().unwrap_or_default();
                Verdict::Fail { class: format!("panic@{}", sim::panic_site(&p)), detail: p }
            }
        };
        Outcome::collect(verdict, false)
    }
    fn shrink(&self, case: &Value) -> Vec<Value> {
        let case: Case = match serde_json::from_value(case.clone()) {
            Ok(c) => c,
            Err(_) => return vec![],
        };
        let mut out = vec![];
        match &case.ops {
            Ops::L1(ops) => {
                for i in (0..ops.len()).rev() {
                    let mut v = ops.clone();
                    v.remove(i);
                    out.push(Case { entropy: case.entropy, ops: Ops::L1(v) });
                }
                for i in 0..ops.len() {
                    if let Op1::Set { name, aliases, id } = &ops[i] {
                        for k in 0..aliases.len() {
                            let mut a = aliases.clone();
                            a.remove(k);
                            let mut v = ops.clone();
                            v[i] = Op1::Set { name: name.clone(), aliases: a, id: *id };
                            out.push(Case { entropy: case.entropy, ops: Ops::L1(v) });
                        }
                    }
                }
            }
            Ops::L2(ops) => {
                for i in (0..ops.len()).rev() {
                    let mut v = ops.clone();
                    v.remove(i);
                    out.push(Case { entropy: case.entropy, ops: Ops::L2(v) });
                }
            }
            Ops::L3(pairs) => {
                for i in (0..pairs.len()).rev() {
                    let mut v = pairs.clone();
                    v.remove(i);
                    out.push(Case { entropy: case.entropy, ops: Ops::L3(v) });
                }
                for i in 0..pairs.len() {
                    if pairs[i].1 {
                        let mut v = pairs.clone();
                        v[i].1 = false;
                        out.push(Case { entropy: case.entropy, ops: Ops::L3(v) });
                    }
                }
            }
        }
        if case.entropy != 0 {
            out.push(Case { entropy: 0, ops: case.ops.clone() });
        }
        out.into_iter().map(|c| serde_json::to_value(c).unwrap()).collect()
    }
}
