//! Structured programs over the real SDK: AST, renderer (with random keyword spellings),
//! tree-walking reference interpreter (DESIGN Appendix D.2) and the harness world
//! (`emit`, `cnd`, `hfail`) that compares online. Used by C04, C05, C10, C13.

use crate::props::c03::{bind, render_arg};
use crate::rng::Rng;
use crate::sim::{self, Core, StartInfo};
use duckscript::runner;
use duckscript::types::command::{Command, CommandInvocationContext, CommandResult, Commands};
use duckscript::types::env::Env;
use duckscript::types::error::ScriptError;
use duckscript::types::runtime::Context;
use serde::{Deserialize, Serialize};
use std::cell::RefCell;
use std::collections::{BTreeMap, BTreeSet};
use std::sync::atomic::AtomicBool;
use std::sync::Arc;

// ------------------------------------------------------------------ AST

#[derive(Serialize, Deserialize, Clone, Debug, PartialEq)]
pub enum Cond {
    /// a single value template
    Val(String),
    /// `not <value>`
    NotVal(String),
    And(Vec<String>),
    Or(Vec<String>),
    /// `cnd <site> <default>` / `not cnd ...` ; answers from the site's scripted sequence
    Cnd { site: usize, negate: bool },
    /// the real SDK `equals` used as a command condition
    Equals { a: String, b: String, negate: bool },
    /// a user function in condition position
    Call { f: String, args: Vec<String> },
    /// `not not <literal>`: the condition command invoked from inside its own evaluation
    NotNot(String),
    /// two operands, either of them in a parenthesised group of its own: `( a ) or b`, `a and ( b )`, `( a ) or ( b )`
    Group2 { a: String, b: String, or: bool, pa: bool, pb: bool },
    /// `nlout <value>` as the condition command: it answers the value followed by a line break (what a command that
    /// reads a file or a child process's output hands back); such a text is not one of the false values
    NlOut(String),
    /// a script-implemented library command in condition position (`array_contains ${a<k>} <value>`: its script uses
    /// for / if / end itself while the caller's block keyword is being evaluated)
    Lib { arr: usize, val: String },
    /// a condition command that reports an error (`greater_than abc 5`: "Non numeric value"), plain or negated
    Errs { negate: bool },
    /// three to five literal operands joined by `and` and `or` in any mix (`ors[i]` = the connective after operand i is
    /// `or`): the and-of-ors rule - `a or b and c` is `(a or b) and c`
    Mixed { vals: Vec<String>, ors: Vec<bool> },
}

#[derive(Serialize, Deserialize, Clone, Debug, PartialEq)]
pub enum ArrRef {
    Global(usize),
    Inline(Vec<String>),
}

#[derive(Serialize, Deserialize, Clone, Debug, PartialEq)]
pub enum Stmt {
    Emit(Vec<String>),
    Set(String, String),
    /// `[x =] hfail msg` : a leaf command that reports an error by itself
    Fail(Option<String>, String),
    If { branches: Vec<(Cond, Vec<Stmt>)>, els: Option<Vec<Stmt>>, sp: u32 },
    While { cond: Cond, body: Vec<Stmt>, sp: u32 },
    ForIn { var: String, arr: ArrRef, body: Vec<Stmt>, sp: u32, id: u32 },
    Call { out: Option<String>, f: String, args: Vec<String>, show: bool },
    Return(Option<String>),
    /// a raw line rendered verbatim and ignored by the model (used by C10 for probes etc.)
    Raw(String),
}

#[derive(Serialize, Deserialize, Clone, Debug, PartialEq)]
pub struct FnDef {
    pub name: String,
    pub scoped: bool,
    pub body: Vec<Stmt>,
    pub sp: u32,
}

#[derive(Serialize, Deserialize, Clone, Debug, PartialEq)]
pub struct Program {
    pub fns: Vec<FnDef>,
    pub arrays: Vec<Vec<String>>,
    pub main: Vec<Stmt>,
    /// scripted answers per `cnd` site
    pub cnd: Vec<Vec<bool>>,
    /// indexes (in execution order, depth 0 only) of leaf commands made to answer Error by the decorator
    pub fail_leaf: Vec<u32>,
    /// wrap everything after the definitions in `while true` (C13 only; the model cannot run these)
    pub forever: bool,
    /// render with CRLF line endings
    #[serde(default)]
    pub crlf: bool,
}

// ------------------------------------------------------------------ rendering

fn pick<'a>(sp: u32, slot: u32, options: &[&'a str]) -> &'a str {
    let x = crate::rng::mix64((sp as u64) << 8 | slot as u64);
    options[(x % options.len() as u64) as usize]
}

const IF_SP: [&str; 2] = ["if", "std::flowcontrol::If"];
const ELSEIF_SP: [&str; 3] = ["elseif", "elif", "std::flowcontrol::ElseIf"];
const ELSE_SP: [&str; 2] = ["else", "std::flowcontrol::Else"];
const ENDIF_SP: [&str; 5] = ["end", "end_if", "endif", "fi", "std::flowcontrol::EndIf"];
const WHILE_SP: [&str; 2] = ["while", "std::flowcontrol::While"];
const ENDWHILE_SP: [&str; 4] = ["end", "end_while", "endwhile", "std::flowcontrol::EndWhile"];
const FOR_SP: [&str; 2] = ["for", "std::flowcontrol::ForIn"];
const ENDFOR_SP: [&str; 3] = ["end", "end_for", "std::flowcontrol::EndForIn"];
const FN_SP: [&str; 3] = ["fn", "function", "std::flowcontrol::Function"];
const ENDFN_SP: [&str; 4] = ["end", "end_fn", "end_function", "std::flowcontrol::EndFunction"];
const RETURN_SP: [&str; 2] = ["return", "std::flowcontrol::Return"];

/// an argument as script text: a backslash in the value is written as two (C02 is not under test here, but values
/// with backslashes travel through the condition re-parse and must arrive unchanged)
fn rarg(a: &str) -> String {
    render_arg(&a.replace('\\', "\\\\"))
}

pub fn render_cond(c: &Cond) -> String {
    match c {
        Cond::Val(v) => rarg(v),
        Cond::NotVal(v) => format!("not {}", rarg(v)),
        Cond::And(vs) => vs.iter().map(|v| rarg(v)).collect::<Vec<_>>().join(" and "),
        Cond::Or(vs) => vs.iter().map(|v| rarg(v)).collect::<Vec<_>>().join(" or "),
        Cond::Mixed { vals, ors } => {
            let mut s = rarg(&vals[0]);
            for (i, v) in vals.iter().enumerate().skip(1) {
                s.push_str(if ors[i - 1] { " or " } else { " and " });
                s.push_str(&rarg(v));
            }
            s
        }
        Cond::Cnd { site, negate } => format!("{}cnd {} {}", if *negate { "not " } else { "" }, site, negate),
        Cond::Equals { a, b, negate } => format!("{}equals {} {}", if *negate { "not " } else { "" }, rarg(a), rarg(b)),
        Cond::Call { f, args } => {
            let mut s = f.clone();
            for a in args {
                s.push(' ');
                s.push_str(&rarg(a));
            }
            s
        }
        Cond::NotNot(v) => format!("not not {}", rarg(v)),
        Cond::NlOut(v) => format!("nlout {}", rarg(v)),
        Cond::Group2 { a, b, or, pa, pb } => {
            let g = |v: &String, p: bool| if p { format!("( {} )", rarg(v)) } else { rarg(v) };
            format!("{} {} {}", g(a, *pa), if *or { "or" } else { "and" }, g(b, *pb))
        }
        Cond::Lib { arr, val } => format!("array_contains ${{a{}}} {}", arr, rarg(val)),
        Cond::Errs { negate } => format!("{}greater_than abc 5", if *negate { "not " } else { "" }),
    }
}

fn render_block(stmts: &[Stmt], indent: usize, out: &mut Vec<String>) {
    let pad = " ".repeat(indent * 2);
    for s in stmts {
        match s {
            Stmt::Emit(args) => {
                let mut l = format!("{}emit", pad);
                for a in args {
                    l.push(' ');
                    l.push_str(&rarg(a));
                }
                out.push(l);
            }
            Stmt::Set(x, v) => out.push(format!("{}{} = set {}", pad, x, rarg(v))),
            Stmt::Fail(x, m) => match x {
                Some(x) => out.push(format!("{}{} = hfail {}", pad, x, rarg(m))),
                None => out.push(format!("{}hfail {}", pad, rarg(m))),
            },
            Stmt::If { branches, els, sp } => {
                for (i, (c, b)) in branches.iter().enumerate() {
                    let kw = if i == 0 { pick(*sp, 0, &IF_SP) } else { pick(*sp, i as u32, &ELSEIF_SP) };
                    out.push(format!("{}{} {}", pad, kw, render_cond(c)));
                    render_block(b, indent + 1, out);
                }
                if let Some(e) = els {
                    out.push(format!("{}{}", pad, pick(*sp, 100, &ELSE_SP)));
                    render_block(e, indent + 1, out);
                }
                out.push(format!("{}{}", pad, pick(*sp, 101, &ENDIF_SP)));
            }
            Stmt::While { cond, body, sp } => {
                out.push(format!("{}{} {}", pad, pick(*sp, 0, &WHILE_SP), render_cond(cond)));
                render_block(body, indent + 1, out);
                out.push(format!("{}{}", pad, pick(*sp, 1, &ENDWHILE_SP)));
            }
            Stmt::ForIn { var, arr, body, sp, id } => {
                let handle = match arr {
                    ArrRef::Global(k) => format!("${{a{}}}", k),
                    ArrRef::Inline(vals) => {
                        let mut l = format!("{}t{} = array", pad, id);
                        for v in vals {
                            l.push(' ');
                            l.push_str(&rarg(v));
                        }
                        out.push(l);
                        format!("${{t{}}}", id)
                    }
                };
                out.push(format!("{}{} {} in {}", pad, pick(*sp, 0, &FOR_SP), var, handle));
                render_block(body, indent + 1, out);
                out.push(format!("{}{}", pad, pick(*sp, 1, &ENDFOR_SP)));
            }
            Stmt::Call { out: o, f, args, show } => {
                let mut l = pad.clone();
                if let Some(o) = o {
                    l.push_str(o);
                    l.push_str(" = ");
                }
                l.push_str(f);
                for a in args {
                    l.push(' ');
                    l.push_str(&rarg(a));
                }
                out.push(l);
                if *show {
                    if let Some(o) = o {
                        out.push(format!("{}emit R ${{{}}}", pad, o));
                    }
                }
            }
            Stmt::Return(v) => match v {
                Some(v) => out.push(format!("{}{} {}", pad, "return", rarg(v))),
                None => out.push(format!("{}return", pad)),
            },
            Stmt::Raw(l) => out.push(format!("{}{}", pad, l)),
        }
    }
}

pub fn render(p: &Program) -> String {
    let mut out: Vec<String> = vec![];
    for (k, a) in p.arrays.iter().enumerate() {
        let mut l = format!("a{} = array", k);
        for v in a {
            l.push(' ');
            l.push_str(&rarg(v));
        }
        out.push(l);
    }
    for f in &p.fns {
        out.push(format!("{} {}{}", pick(f.sp, 0, &FN_SP), if f.scoped { "<scope> " } else { "" }, f.name));
        render_block(&f.body, 1, &mut out);
        out.push(pick(f.sp, 1, &ENDFN_SP).to_string());
        out.push(String::new());
    }
    if p.forever {
        out.push("while true".to_string());
        render_block(&p.main, 1, &mut out);
        out.push("end".to_string());
    } else {
        render_block(&p.main, 0, &mut out);
    }
    let _ = RETURN_SP;
    let eol = if p.crlf { "\r\n" } else { "\n" };
    let mut text = out.join(eol);
    text.push_str(eol);
    text
}

// ------------------------------------------------------------------ the reference interpreter

pub const HANDLE_TOKEN: &str = "@H";

#[derive(Clone, Debug, PartialEq)]
pub struct ExpEmit {
    /// None = unconstrained argument (depends on a value the statement leaves open)
    pub args: Vec<Option<String>>,
    pub vars: BTreeMap<String, String>,
    pub unknown: BTreeSet<String>,
}

#[derive(Clone, Debug, Default)]
pub struct Frame {
    pub vars: BTreeMap<String, String>,
    pub unknown: BTreeSet<String>,
}

pub struct Interp<'a> {
    pub p: &'a Program,
    pub frames: Vec<Frame>,
    pub emits: Vec<ExpEmit>,
    pub cnd_pos: Vec<usize>,
    pub leaf: u32,
    pub steps: u64,
    pub cond_depth: u32,
    /// a command that fails inside a function called in condition position is treated like anywhere else (output
    /// variable false, the body goes on) instead of ending the comparison as inconclusive; off while the finding about
    /// exactly that is listed
    pub strict_cond_errors: bool,
    /// a block header whose own condition reports an error counts as not taken (false: the model gives up there)
    pub strict_header_errors: bool,
    pub probes: Vec<&'static str>,
    pub loop_depth: u32,
    pub call_depth: u32,
    /// names of functions currently executing (for the recursion probe)
    pub active: Vec<String>,
    pub forin_active_in: Vec<(String, u32)>,
}

pub enum Flow {
    Next,
    Return(Option<(String, bool)>),
}

#[derive(Debug)]
pub enum Stop {
    /// the model cannot follow (branch on an unconstrained value, step limit)
    Inconclusive(String),
}

const MODEL_STEP_LIMIT: u64 = 6000;

pub fn truthy(v: &str) -> bool {
    let l = v.to_lowercase();
    !(l.is_empty() || l == "0" || l == "false" || l == "no")
}

impl<'a> Interp<'a> {
    pub fn new(p: &'a Program) -> Interp<'a> {
        Interp {
            p,
            frames: vec![Frame::default()],
            emits: vec![],
            cnd_pos: vec![0; p.cnd.len()],
            leaf: 0,
            steps: 0,
            cond_depth: 0,
            strict_cond_errors: false,
            strict_header_errors: false,
            probes: vec![],
            loop_depth: 0,
            call_depth: 0,
            active: vec![],
            forin_active_in: vec![],
        }
    }
    fn cur(&mut self) -> &mut Frame {
        self.frames.last_mut().unwrap()
    }
    fn cur_ref(&self) -> &Frame {
        self.frames.last().unwrap()
    }
    /// (value, tainted)
    fn eval(&self, tpl: &str) -> (String, bool) {
        let f = self.cur_ref();
        let mut tainted = false;
        let mut rest = tpl;
        while let Some(i) = rest.find("${") {
            match rest[i + 2..].find('}') {
                Some(j) => {
                    let name = &rest[i + 2..i + 2 + j];
                    if f.unknown.contains(name) {
                        tainted = true;
                    }
                    rest = &rest[i + 2 + j + 1..];
                }
                None => break,
            }
        }
        (bind(tpl, &f.vars), tainted)
    }
    fn assign(&mut self, name: &str, value: Option<String>, tainted: bool) {
        let f = self.cur();
        f.unknown.remove(name);
        match value {
            Some(v) => {
                f.vars.insert(name.to_string(), v);
            }
            None => {
                f.vars.remove(name);
            }
        }
        if tainted {
            f.unknown.insert(name.to_string());
        }
    }
    fn next_leaf_fails(&mut self) -> bool {
        if self.cond_depth > 0 {
            return false;
        }
        let n = self.leaf;
        self.leaf += 1;
        self.p.fail_leaf.contains(&n)
    }
    fn cnd(&mut self, site: usize, default: bool) -> bool {
        let pos = self.cnd_pos.get(site).copied().unwrap_or(0);
        if site < self.cnd_pos.len() {
            self.cnd_pos[site] += 1;
        }
        self.p.cnd.get(site).and_then(|s| s.get(pos)).copied().unwrap_or(default)
    }
    fn cond(&mut self, c: &Cond) -> Result<bool, Stop> {
        match c {
            Cond::Val(v) => {
                let (s, t) = self.eval(v);
                if t {
                    return Err(Stop::Inconclusive("condition reads an unconstrained value".to_string()));
                }
                Ok(truthy(&s))
            }
            Cond::NotVal(v) => {
                let (s, t) = self.eval(v);
                if t {
                    return Err(Stop::Inconclusive("condition reads an unconstrained value".to_string()));
                }
                Ok(!truthy(&s))
            }
            Cond::Mixed { vals, ors } => {
                // groups of operands joined by `or`, the groups joined by `and`
                let mut total = true;
                let mut group = truthy(&vals[0]);
                for (i, v) in vals.iter().enumerate().skip(1) {
                    if ors[i - 1] {
                        group = group || truthy(v);
                    } else {
                        total = total && group;
                        group = truthy(v);
                    }
                }
                Ok(total && group)
            }
            Cond::And(vs) => {
                let mut r = true;
                for v in vs {
                    let (s, t) = self.eval(v);
                    if t {
                        return Err(Stop::Inconclusive("condition reads an unconstrained value".to_string()));
                    }
                    r = r && truthy(&s);
                }
                Ok(r)
            }
            Cond::Or(vs) => {
                let mut r = false;
                for v in vs {
                    let (s, t) = self.eval(v);
                    if t {
                        return Err(Stop::Inconclusive("condition reads an unconstrained value".to_string()));
                    }
                    r = r || truthy(&s);
                }
                Ok(r)
            }
            Cond::Cnd { site, negate } => {
                let v = self.cnd(*site, *negate);
                Ok(if *negate { !v } else { v })
            }
            Cond::Equals { a, b, negate } => {
                let (x, t1) = self.eval(a);
                let (y, t2) = self.eval(b);
                if t1 || t2 {
                    return Err(Stop::Inconclusive("condition reads an unconstrained value".to_string()));
                }
                let r = x == y;
                Ok(if *negate { !r } else { r })
            }
            Cond::Call { f, args } => {
                self.probes.push("call-in-condition");
                self.cond_depth += 1;
                let r = self.call(f, args, None);
                self.cond_depth -= 1;
                match r? {
                    Some((v, t)) => {
                        if t {
                            return Err(Stop::Inconclusive("condition call returned an unconstrained value".to_string()));
                        }
                        Ok(truthy(&v))
                    }
                    None => Ok(false),
                }
            }
            Cond::NotNot(v) => {
                self.probes.push("not-not-condition");
                Ok(truthy(v))
            }
            Cond::Group2 { a, b, or, .. } => {
                self.probes.push("condition-with-a-parenthesised-group");
                Ok(if *or { truthy(a) || truthy(b) } else { truthy(a) && truthy(b) })
            }
            Cond::NlOut(v) => {
                self.probes.push("condition-output-with-line-break");
                Ok(truthy(&format!("{}\n", v)))
            }
            Cond::Lib { arr, val } => {
                let name = format!("a{}", arr);
                let fr = self.cur_ref();
                if !fr.vars.contains_key(&name) || fr.unknown.contains(&name) {
                    // the handle is hidden by a scoped caller: the command errors, and what an erroring condition
                    // means is left open
                    return Err(Stop::Inconclusive("erroring library call as a condition".to_string()));
                }
                self.probes.push("library-command-as-condition");
                // the command answers with the index of the first match ("0" is a false value) or false
                let idx = self.p.arrays.get(*arr).and_then(|a| a.iter().position(|x| x == val));
                Ok(matches!(idx, Some(i) if i > 0))
            }
            Cond::Errs { .. } => {
                // a condition that reports an error has no truthy value: the statement's reading is "not taken" (the
                // header answers with the error and the block goes on as for a false condition)
                if !self.strict_header_errors {
                    return Err(Stop::Inconclusive("a condition that reports an error".to_string()));
                }
                self.probes.push("condition-reports-an-error");
                Ok(false)
            }
        }
    }
    /// Returns the returned value (value, tainted) if any.
    fn call(&mut self, fname: &str, args: &[String], out: Option<&str>) -> Result<Option<(String, bool)>, Stop> {
        let def = match self.p.fns.iter().find(|f| f.name == fname) {
            Some(d) => d.clone(),
            None => return Err(Stop::Inconclusive(format!("call of undefined function {}", fname))),
        };
        let vals: Vec<(String, bool)> = args.iter().map(|a| self.eval(a)).collect();
        if self.active.iter().any(|a| a == fname) {
            self.probes.push("recursive-call");
            if self.forin_active_in.iter().any(|(f, _)| f == fname) {
                self.probes.push("recursion-through-for-body");
            }
        }
        let out_defined_before = out.map(|o| self.cur_ref().vars.contains_key(o) || self.cur_ref().unknown.contains(o)).unwrap_or(false);
        if let Some(o) = out {
            // while the call is in flight the statement says nothing about the output variable
            self.cur().unknown.insert(o.to_string());
        }
        if def.scoped {
            self.frames.push(Frame::default());
        }
        for (i, (v, t)) in vals.iter().enumerate() {
            self.assign(&(i + 1).to_string(), Some(v.clone()), *t);
        }
        self.active.push(fname.to_string());
        self.call_depth += 1;
        let saved_loop_depth = self.loop_depth;
        let flow = self.block(&def.body);
        self.loop_depth = saved_loop_depth;
        self.call_depth -= 1;
        self.active.pop();
        // drop for-in activity records of this activation
        let depth_now = self.call_depth;
        self.forin_active_in.retain(|(_, d)| *d <= depth_now);
        let flow = flow?;
        if def.scoped {
            self.frames.pop();
        }
        let ret = match flow {
            Flow::Return(v) => v,
            Flow::Next => None,
        };
        if let Some(o) = out {
            match &ret {
                Some((v, t)) => self.assign(o, Some(v.clone()), *t),
                None => {
                    if def.scoped && out_defined_before {
                        // stated corner 1: unconstrained
                        self.probes.push("corner1-scoped-valueless-out-was-defined");
                        self.assign(o, None, true);
                    } else if self.cond_depth > 0 {
                        // stated corner 2: unconstrained
                        self.probes.push("corner2-valueless-inner-call-in-condition");
                        self.assign(o, None, true);
                    } else {
                        self.assign(o, None, false);
                    }
                    if def.scoped {
                        self.probes.push("scoped-valueless-with-out");
                    }
                }
            }
        }
        Ok(ret)
    }
    fn block(&mut self, stmts: &[Stmt]) -> Result<Flow, Stop> {
        for s in stmts {
            self.steps += 1;
            if self.steps > MODEL_STEP_LIMIT {
                return Err(Stop::Inconclusive("model step limit".to_string()));
            }
            match s {
                Stmt::Emit(args) => {
                    if self.next_leaf_fails() {
                        continue;
                    }
                    let vals: Vec<Option<String>> = args
                        .iter()
                        .map(|a| {
                            let (v, t) = self.eval(a);
                            if t { None } else { Some(v) }
                        })
                        .collect();
                    let f = self.cur_ref();
                    self.emits.push(ExpEmit { args: vals, vars: f.vars.clone(), unknown: f.unknown.clone() });
                }
                Stmt::Set(x, v) => {
                    if self.next_leaf_fails() {
                        self.assign(x, Some("false".to_string()), false);
                        continue;
                    }
                    let (val, t) = self.eval(v);
                    self.assign(x, Some(val), t);
                }
                Stmt::Fail(x, _) => {
                    let _ = self.next_leaf_fails();
                    if self.cond_depth > 0 && !self.strict_cond_errors {
                        return Err(Stop::Inconclusive("failing leaf inside a condition call".to_string()));
                    }
                    if self.cond_depth > 0 {
                        self.probes.push("failing-command-inside-a-condition-call");
                    }
                    if let Some(x) = x {
                        self.assign(x, Some("false".to_string()), false);
                    }
                    if self.loop_depth > 0 {
                        self.probes.push("error-inside-loop-body");
                    }
                }
                Stmt::If { branches, els, .. } => {
                    let mut taken = false;
                    for (c, b) in branches {
                        if self.cond(c)? {
                            taken = true;
                            if let Flow::Return(v) = self.block(b)? {
                                return Ok(Flow::Return(v));
                            }
                            break;
                        }
                    }
                    if !taken {
                        if let Some(e) = els {
                            if let Flow::Return(v) = self.block(e)? {
                                return Ok(Flow::Return(v));
                            }
                        }
                    }
                    if branches.len() >= 2 && self.loop_depth >= 2 {
                        self.probes.push("elseif-chain-inside-nested-loops");
                    }
                }
                Stmt::While { cond, body, .. } => {
                    let mut iterations = 0;
                    loop {
                        self.steps += 1;
                        if self.steps > MODEL_STEP_LIMIT {
                            return Err(Stop::Inconclusive("model step limit".to_string()));
                        }
                        if !self.cond(cond)? {
                            break;
                        }
                        iterations += 1;
                        self.loop_depth += 1;
                        let r = self.block(body)?;
                        self.loop_depth -= 1;
                        if let Flow::Return(v) = r {
                            self.probes.push("return-from-while");
                            if self.loop_depth >= 1 {
                                self.probes.push("return-from-loop-depth-2");
                            }
                            return Ok(Flow::Return(v));
                        }
                    }
                    if iterations == 0 {
                        self.probes.push("zero-iteration-while");
                    }
                }
                Stmt::ForIn { var, arr, body, id, .. } => {
                    let items: Vec<String> = match arr {
                        ArrRef::Global(k) => {
                            // the handle variable must be visible here
                            let name = format!("a{}", k);
                            if !self.cur_ref().vars.contains_key(&name) {
                                return Err(Stop::Inconclusive("global array not visible in this scope".to_string()));
                            }
                            self.p.arrays.get(*k).cloned().unwrap_or_default()
                        }
                        ArrRef::Inline(v) => {
                            self.assign(&format!("t{}", id), Some(HANDLE_TOKEN.to_string()), false);
                            v.clone()
                        }
                    };
                    if items.is_empty() {
                        self.probes.push("zero-iteration-for");
                    }
                    let fname = self.active.last().cloned().unwrap_or_default();
                    for item in items {
                        self.assign(var, Some(item), false);
                        self.loop_depth += 1;
                        self.forin_active_in.push((fname.clone(), self.call_depth));
                        let r = self.block(body)?;
                        self.forin_active_in.pop();
                        self.loop_depth -= 1;
                        if let Flow::Return(v) = r {
                            self.probes.push("return-from-for");
                            if self.loop_depth >= 1 {
                                self.probes.push("return-from-loop-depth-2");
                            }
                            return Ok(Flow::Return(v));
                        }
                    }
                    // the loop variable's value after the loop is not stated
                    let f = self.cur();
                    f.unknown.insert(var.clone());
                }
                Stmt::Call { out, f, args, show } => {
                    self.call(f, args, out.as_deref())?;
                    if *show {
                        if let Some(o) = out {
                            if !self.next_leaf_fails() {
                                let tpl = format!("${{{}}}", o);
                                let (v, t) = self.eval(&tpl);
                                let fr = self.cur_ref();
                                self.emits.push(ExpEmit { args: vec![Some("R".to_string()), if t { None } else { Some(v) }], vars: fr.vars.clone(), unknown: fr.unknown.clone() });
                            }
                        }
                    }
                }
                Stmt::Return(v) => {
                    let r = v.as_ref().map(|t| self.eval(t));
                    return Ok(Flow::Return(r));
                }
                Stmt::Raw(l) => {
                    // a library call that reports an error aborts the nested evaluation of a condition call:
                    // the statement does not say what an erroring condition means
                    if self.cond_depth > 0 {
                        let mut errs = l.contains("nohandle");
                        // ... also when the handle variable is not visible here (some caller up the chain is scoped)
                        for k in 0..self.p.arrays.len() {
                            let name = format!("a{}", k);
                            if l.contains(&format!("${{{}}}", name)) {
                                let fr = self.cur_ref();
                                if !fr.vars.contains_key(&name) || fr.unknown.contains(&name) {
                                    errs = true;
                                }
                            }
                        }
                        if errs {
                            return Err(Stop::Inconclusive("erroring library call inside a condition call".to_string()));
                        }
                    }
                }
            }
        }
        Ok(Flow::Next)
    }
    pub fn run(mut self) -> Result<ModelRun, Stop> {
        for k in 0..self.p.arrays.len() {
            self.assign(&format!("a{}", k), Some(HANDLE_TOKEN.to_string()), false);
        }
        let main = self.p.main.clone();
        self.block(&main)?;
        let f = self.frames.pop().unwrap();
        Ok(ModelRun { steps: self.steps, emits: self.emits, vars: f.vars, unknown: f.unknown, probes: self.probes })
    }
}

pub struct ModelRun {
    /// statements the model executed
    pub steps: u64,
    pub emits: Vec<ExpEmit>,
    pub vars: BTreeMap<String, String>,
    pub unknown: BTreeSet<String>,
    pub probes: Vec<&'static str>,
}

// ------------------------------------------------------------------ the harness world

pub struct World {
    pub expected: Option<Vec<ExpEmit>>,
    pub next: usize,
    pub scripts: Vec<Vec<bool>>,
    pub cnd_pos: Vec<usize>,
    pub leaf: u32,
    pub fail_leaf: Vec<u32>,
    pub emitted: usize,
    /// sites of `cfail` that already failed once
    pub cfail_seen: BTreeSet<String>,
}

thread_local! {
    pub static WORLD: RefCell<Option<World>> = RefCell::new(None);
}

pub fn normalise(v: &str) -> String {
    if v.starts_with("handle:") {
        HANDLE_TOKEN.to_string()
    } else {
        v.to_string()
    }
}

pub fn compare_vars(real: &std::collections::HashMap<String, String>, model: &BTreeMap<String, String>, unknown: &BTreeSet<String>) -> Option<String> {
    for (k, v) in real {
        if unknown.contains(k) {
            continue;
        }
        match model.get(k) {
            Some(m) if *m == normalise(v) => {}
            Some(m) => return Some(format!("variable {} = {:?}, model {:?}", k, v, m)),
            None => return Some(format!("variable {} = {:?} is defined, the model has it undefined", k, v)),
        }
    }
    for (k, m) in model {
        if unknown.contains(k) {
            continue;
        }
        if !real.contains_key(k) {
            return Some(format!("variable {} is undefined, model {:?}", k, m));
        }
    }
    None
}

#[derive(Clone)]
struct EmitCmd;

impl Command for EmitCmd {
    fn name(&self) -> String {
        "emit".to_string()
    }
    fn clone_and_box(&self) -> Box<dyn Command> {
        Box::new(self.clone())
    }
    fn run(&self, ctx: CommandInvocationContext) -> CommandResult {
        let problem = WORLD.with(|w| {
            let mut w = w.borrow_mut();
            let w = match w.as_mut() {
                Some(w) => w,
                None => return None,
            };
            w.emitted += 1;
            let idx = w.next;
            w.next += 1;
            let exp = match &w.expected {
                Some(e) => e,
                None => return None,
            };
            match exp.get(idx) {
                None => Some(("trace-divergence", format!("emit #{} {:?}: the model expects no further emit", idx, ctx.arguments))),
                Some(e) => {
                    if e.args.len() != ctx.arguments.len() {
                        return Some(("trace-divergence", format!("emit #{}: real {:?} / model {:?}", idx, ctx.arguments, e.args)));
                    }
                    for (r, m) in ctx.arguments.iter().zip(e.args.iter()) {
                        if let Some(m) = m {
                            if *m != normalise(r) {
                                return Some(("trace-divergence", format!("emit #{}: real {:?} / model {:?}", idx, ctx.arguments, e.args)));
                            }
                        }
                    }
                    compare_vars(ctx.variables, &e.vars, &e.unknown).map(|d| ("variables-at-emit", format!("at emit #{} {:?}: {}", idx, ctx.arguments, d)))
                }
            }
        });
        sim::with_core(|c| {
            let seq = c.next_seq();
            c.log.push(sim::Event::Emit { seq, args: ctx.arguments.clone() });
            if let Some((class, detail)) = problem {
                c.violate(class, detail);
            }
        });
        CommandResult::Continue(None)
    }
}

#[derive(Clone)]
struct CndCmd;

impl Command for CndCmd {
    fn name(&self) -> String {
        "cnd".to_string()
    }
    fn clone_and_box(&self) -> Box<dyn Command> {
        Box::new(self.clone())
    }
    fn run(&self, ctx: CommandInvocationContext) -> CommandResult {
        let site: usize = ctx.arguments.first().and_then(|s| s.parse().ok()).unwrap_or(usize::MAX);
        let default = ctx.arguments.get(1).map(|s| s == "true").unwrap_or(false);
        let v = WORLD.with(|w| {
            let mut w = w.borrow_mut();
            match w.as_mut() {
                Some(w) if site < w.cnd_pos.len() => {
                    let pos = w.cnd_pos[site];
                    w.cnd_pos[site] += 1;
                    w.scripts[site].get(pos).copied().unwrap_or(default)
                }
                _ => default,
            }
        });
        CommandResult::Continue(Some(v.to_string()))
    }
}

#[derive(Clone)]
struct HfailCmd;

impl Command for HfailCmd {
    fn name(&self) -> String {
        "hfail".to_string()
    }
    fn clone_and_box(&self) -> Box<dyn Command> {
        Box::new(self.clone())
    }
    fn run(&self, ctx: CommandInvocationContext) -> CommandResult {
        CommandResult::Error(ctx.arguments.first().cloned().unwrap_or_else(|| "hfail".to_string()))
    }
}

/// `nlout <value>`: answers the value followed by a line break
#[derive(Clone)]
struct NlOutCmd;

impl Command for NlOutCmd {
    fn name(&self) -> String {
        "nlout".to_string()
    }
    fn clone_and_box(&self) -> Box<dyn Command> {
        Box::new(self.clone())
    }
    fn run(&self, ctx: CommandInvocationContext) -> CommandResult {
        CommandResult::Continue(Some(format!("{}\n", ctx.arguments.first().cloned().unwrap_or_default())))
    }
}

/// `cfail <site>`: a condition command that reports an error the first time it is asked at a site and answers false
/// afterwards (a block header whose condition fails once: the error belongs to the block command)
#[derive(Clone)]
struct CfailCmd;

impl Command for CfailCmd {
    fn name(&self) -> String {
        "cfail".to_string()
    }
    fn clone_and_box(&self) -> Box<dyn Command> {
        Box::new(self.clone())
    }
    fn run(&self, ctx: CommandInvocationContext) -> CommandResult {
        let site = ctx.arguments.first().cloned().unwrap_or_default();
        let first = WORLD.with(|w| w.borrow_mut().as_mut().map(|w| w.cfail_seen.insert(site.clone())).unwrap_or(false));
        if first {
            CommandResult::Error(format!("cfail-{}", site))
        } else {
            CommandResult::Continue(Some("false".to_string()))
        }
    }
}

/// `subrun <n>`: a nested run of an n-line script on a context of its own that shares the embedder's halt flag (what a
/// command that evaluates a script of its own does). No emit, no effect on the caller's variables: invisible to the
/// models. Once the flag is up the nested run stops, and so must the run it was called from.
#[derive(Clone)]
struct SubrunCmd;

impl Command for SubrunCmd {
    fn name(&self) -> String {
        "subrun".to_string()
    }
    fn clone_and_box(&self) -> Box<dyn Command> {
        Box::new(self.clone())
    }
    fn run(&self, ctx: CommandInvocationContext) -> CommandResult {
        let n = ctx.arguments.first().and_then(|a| a.parse::<usize>().ok()).unwrap_or(3);
        let text = (0..n).map(|i| format!("n{} = set {}", i, i)).collect::<Vec<_>>().join("\n");
        let mut context = Context::new();
        context.commands = ctx.commands.clone();
        let env = Env::new(None, None, Some(ctx.env.halt.clone()));
        match runner::run_script(&text, context, Some(env)) {
            Ok(_) => CommandResult::Continue(None),
            // (the nested script cannot fail by itself: this is the harness's step budget ending the run - pass it on
            // as what it is, or the outer run would survive its own budget)
            Err(e) => CommandResult::Crash(e.to_string()),
        }
    }
}

/// commands that block, leave the process or change process-global state (S8): removed from every world
pub const REMOVED: [&str; 30] = [
    "read", "sleep", "exec", "spawn", "exit", "watchdog", "http_client", "wget", "ftp_get", "ftp_get_in_memory", "ftp_list", "ftp_nlst", "ftp_put",
    "ftp_put_in_memory", "cd", "set_env", "unset_env", "temp_dir", "temp_file", "test_directory", "test_file", "env_to_map", "print_env", "get_env", "which",
    "zip", "unzip", "chmod", "chmod_glob", "internal::SDKDocsGen",
];

struct SharedCommands(Commands);
// SAFETY: the SDK's command structs hold plain data (strings, parsed instructions) without interior
// mutability; the shared value is only ever read (cloned) after initialisation.
unsafe impl Send for SharedCommands {}
unsafe impl Sync for SharedCommands {}

static BASE: std::sync::OnceLock<SharedCommands> = std::sync::OnceLock::new();

/// The SDK registry minus the S8 commands. Loaded once per process; every context gets fresh maps
/// (so their hash order comes from the current thread's entropy) holding clones of the commands.
pub fn sdk_commands() -> Commands {
    let base = BASE.get_or_init(|| {
        let mut commands = Commands::new();
        duckscriptsdk::load(&mut commands).expect("sdk load");
        for name in REMOVED {
            commands.remove(name);
        }
        SharedCommands(commands)
    });
    let mut c = Commands::new();
    for (k, v) in base.0.commands.iter() {
        c.commands.insert(k.clone(), v.clone());
    }
    for (k, v) in base.0.aliases.iter() {
        c.aliases.insert(k.clone(), v.clone());
    }
    c
}

static FULL: std::sync::OnceLock<SharedCommands> = std::sync::OnceLock::new();

/// puts SDK commands that `sdk_commands` leaves out back into a registry (for a property whose world can hold them)
pub fn add_sdk_commands(target: &mut Commands, names: &[&str]) {
    let full = FULL.get_or_init(|| {
        let mut commands = Commands::new();
        duckscriptsdk::load(&mut commands).expect("sdk load");
        SharedCommands(commands)
    });
    for n in names {
        if let Some(cmd) = full.0.commands.get(*n).or_else(|| full.0.aliases.get(*n).and_then(|k| full.0.commands.get(k))) {
            let _ = target.set(cmd.clone_and_box());
        }
    }
}

/// names of the SDK commands that are themselves written in duckscript (their help carries the source)
pub fn script_command_names() -> &'static BTreeSet<String> {
    static NAMES: std::sync::OnceLock<BTreeSet<String>> = std::sync::OnceLock::new();
    NAMES.get_or_init(|| {
        let c = sdk_commands();
        c.commands.iter().filter(|(_, v)| v.help().contains("#### Source:")).map(|(k, _)| k.clone()).collect()
    })
}

pub fn sdk_context() -> Context {
    let mut context = Context::new();
    context.commands = sdk_commands();
    context
}

pub fn add_harness(commands: &mut Commands) {
    commands.set(Box::new(EmitCmd)).unwrap();
    commands.set(Box::new(CndCmd)).unwrap();
    commands.set(Box::new(HfailCmd)).unwrap();
    commands.set(Box::new(SubrunCmd)).unwrap();
    commands.set(Box::new(CfailCmd)).unwrap();
    commands.set(Box::new(NlOutCmd)).unwrap();
}

pub const LEAVES: [&str; 3] = ["emit", "std::var::Set", "hfail"];

/// pre-hook of the decorator: fail the n-th depth-0 leaf invocation (F1 buggify)
fn leaf_fault(core: &mut Core, info: &StartInfo) -> Option<CommandResult> {
    if info.depth != 0 || info.handler || !LEAVES.contains(&info.name.as_str()) {
        return None;
    }
    let hit = WORLD.with(|w| {
        let mut w = w.borrow_mut();
        match w.as_mut() {
            Some(w) => {
                let n = w.leaf;
                w.leaf += 1;
                w.fail_leaf.contains(&n)
            }
            None => false,
        }
    });
    if hit && info.name != "hfail" {
        core.fire("F1", &format!("inj at {} (instruction index {})", info.name, info.line));
        Some(CommandResult::Error(format!("inj-{}", info.line)))
    } else {
        None
    }
}

pub fn install_world(p: &Program, expected: Option<Vec<ExpEmit>>) {
    WORLD.with(|w| {
        *w.borrow_mut() = Some(World {
            expected,
            next: 0,
            scripts: p.cnd.clone(),
            cnd_pos: vec![0; p.cnd.len()],
            leaf: 0,
            fail_leaf: p.fail_leaf.clone(),
            emitted: 0,
            cfail_seen: BTreeSet::new(),
        })
    });
    sim::with_core(|c| c.pre_hook = Some(leaf_fault));
}

pub fn emitted() -> usize {
    WORLD.with(|w| w.borrow().as_ref().map(|w| w.emitted).unwrap_or(0))
}

/// Run the rendered program on the real SDK. `expected` None = no online comparison (C13).
pub fn run_real(p: &Program, halt: Option<Arc<AtomicBool>>, expected: Option<Vec<ExpEmit>>) -> Result<Context, ScriptError> {
    let text = render(p);
    let mut context = sdk_context();
    add_harness(&mut context.commands);
    sim::decorate(&mut context.commands);
    install_world(p, expected);
    let env = sim::embedder_env(halt);
    runner::run_script(&text, context, Some(env))
}

// ------------------------------------------------------------------ generation

#[derive(Clone, Debug)]
pub struct GenOpts {
    pub functions: bool,
    pub faults: bool,
    pub looping: bool,
    pub halt_cmd: bool,
    pub max_depth: u32,
    pub max_stmts: usize,
    /// known-finding shapes the main stream stays out of
    pub avoid_forin_return: bool,
    pub avoid_fullname_else: bool,
    /// sprinkle invocations of script-implemented SDK commands (no output variable) over the program
    pub lib_calls: bool,
    /// arguments of condition-position calls may carry characters that the re-serialisation of such calls mangles
    /// (only while the finding about that is not listed)
    pub odd_cond_args: bool,
    /// conditions that report an error
    pub err_conds: bool,
}

impl Default for GenOpts {
    fn default() -> Self {
        GenOpts { functions: false, faults: false, looping: false, halt_cmd: false, max_depth: 4, max_stmts: 40, avoid_forin_return: false, avoid_fullname_else: false, lib_calls: false, odd_cond_args: false, err_conds: false }
    }
}

const XVARS: [&str; 5] = ["x0", "x1", "x2", "x3", "x4"];
const RVARS: [&str; 3] = ["r0", "r1", "r2"];
// ("OR", "And", "NOT": ordinary values - the condition keywords are lower case)
const VALUES: [&str; 19] = ["a", "b7", "hello", "x y", "", "0", "true", "two words", "false", "no", "NO", "yes", "1", "False", "OR", "And", "NOT", "a\\b", "p q\\r s\\"];

pub const ODD_COND_ARGS: [&str; 6] = ["a#b", "say \"hi\" now", "=", "x = y", "\"q\"", "# all"];

/// some call in condition position carries an argument with a character that the re-serialisation mangles
pub fn has_odd_condition_call_argument(p: &Program) -> bool {
    fn odd(a: &str) -> bool {
        a.contains('#') || a.contains('"') || a.contains('=') || a.contains('\n') || a.contains('\r')
    }
    fn scan(stmts: &[Stmt]) -> bool {
        stmts.iter().any(|s| match s {
            Stmt::If { branches, els, .. } => branches.iter().any(|(c, b)| matches!(c, Cond::Call { args, .. } if args.iter().any(|a| odd(a))) || scan(b)) || els.as_ref().map(|e| scan(e)).unwrap_or(false),
            Stmt::While { cond, body, .. } => matches!(cond, Cond::Call { args, .. } if args.iter().any(|a| odd(a))) || scan(body),
            Stmt::ForIn { body, .. } => scan(body),
            _ => false,
        })
    }
    scan(&p.main) || p.fns.iter().any(|f| scan(&f.body))
}

struct G<'r> {
    /// "big" mode (one program in twenty): ONE dimension goes beyond the usual small pools
    /// (1 long values, 2 nesting depth, 3 branch count, 4 array length, 5 argument count, 6 loop iterations,
    /// 7 loops of more than 64 rounds)
    big: u8,
    /// every function was generated with zero parameters (no body reads ${1}...)
    no_params_read: bool,
    rng: &'r mut Rng,
    opts: GenOpts,
    n_cnd: usize,
    n_for: u32,
    budget: i64,
    n_fns: usize,
    n_arrays: usize,
    /// weights for statement kinds (swarm)
    w: [u32; 8],
}

#[derive(Clone)]
struct Ctx {
    depth: u32,
    in_fn: Option<usize>,
    scoped: bool,
    n_params: usize,
    loop_vars: Vec<String>,
    in_for: bool,
    /// calls allowed (inside a function body only under a cnd-guarded if)
    calls_ok: bool,
}

impl<'r> G<'r> {
    fn value(&mut self) -> String {
        if self.big == 1 && self.rng.chance(1, 6) {
            // longer than 64 bytes
            return format!("long-{}-{}", "abcdefghij".repeat(6 + self.rng.usize(3)), self.rng.below(10));
        }
        self.rng.pick(&VALUES).to_string()
    }
    fn readable(&mut self, ctx: &Ctx, may_concat: bool) -> String {
        // a template that reads a variable which is constrained at this point
        let mut options: Vec<String> = vec![];
        if !ctx.scoped {
            for x in XVARS {
                options.push(x.to_string());
            }
        } else {
            options.push("x0".to_string());
            options.push("x1".to_string());
        }
        for p in 1..=ctx.n_params {
            options.push(p.to_string());
        }
        for l in &ctx.loop_vars {
            options.push(l.clone());
        }
        let name = self.rng.pick(&options).clone();
        // values that flow back into variables reference one variable only: two would let a loop double
        // the length of a value on every iteration
        match self.rng.below(4) {
            0 if may_concat => format!("p${{{}}}", name),
            1 if may_concat => format!("${{{}}}-${{{}}}", name, self.rng.pick(&options)),
            _ => format!("${{{}}}", name),
        }
    }
    fn tpl(&mut self, ctx: &Ctx) -> String {
        if self.rng.chance(1, 2) {
            self.readable(ctx, false)
        } else {
            self.value()
        }
    }
    fn tpl_emit(&mut self, ctx: &Ctx) -> String {
        if self.rng.chance(1, 2) {
            self.readable(ctx, true)
        } else {
            self.value()
        }
    }
    fn cond_value(&mut self, ctx: &Ctx) -> String {
        if self.rng.chance(2, 3) {
            // a plain variable read (never a loop variable spelled like a command: values are from VALUES)
            let mut options: Vec<String> = XVARS.iter().take(if ctx.scoped { 2 } else { 5 }).map(|s| s.to_string()).collect();
            for p in 1..=ctx.n_params {
                options.push(p.to_string());
            }
            format!("${{{}}}", self.rng.pick(&options))
        } else {
            let v = self.value();
            v
        }
    }
    fn new_cnd(&mut self, max_true: usize) -> usize {
        let n = self.rng.usize(max_true + 1);
        let _ = n;
        let site = self.n_cnd;
        self.n_cnd += 1;
        site
    }
    fn cond(&mut self, ctx: &Ctx, for_loop: bool) -> Cond {
        if for_loop {
            return Cond::Cnd { site: self.new_cnd(3), negate: self.rng.chance(1, 4) };
        }
        if self.opts.err_conds && self.rng.chance(1, 40) {
            return Cond::Errs { negate: self.rng.chance(1, 3) };
        }
        match self.rng.below(10) {
            0 | 1 => Cond::Val(self.cond_value(ctx)),
            2 => Cond::NotVal(self.cond_value(ctx)),
            3 | 4 if self.rng.chance(1, 3) => {
                let lit = |r: &mut Rng| r.pick(&["true", "false", "0", "yes", "no", "hello", "1"]).to_string();
                let (pa, pb) = match self.rng.below(3) {
                    0 => (true, false),
                    1 => (false, true),
                    _ => (true, true),
                };
                Cond::Group2 { a: lit(self.rng), b: lit(self.rng), or: self.rng.chance(1, 2), pa, pb }
            }
            3 | 4 if self.rng.chance(1, 4) => {
                let n = 3 + self.rng.usize(3);
                let vals: Vec<String> = (0..n).map(|_| self.rng.pick(&["true", "false", "0", "yes", "no", "hello", "1", "false"]).to_string()).collect();
                let ors: Vec<bool> = (0..n - 1).map(|_| self.rng.chance(1, 2)).collect();
                Cond::Mixed { vals, ors }
            }
            3 => {
                let n = 2 + self.rng.usize(2);
                Cond::And((0..n).map(|_| self.cond_value(ctx)).collect())
            }
            4 => {
                let n = 2 + self.rng.usize(2);
                Cond::Or((0..n).map(|_| self.cond_value(ctx)).collect())
            }
            5 if self.rng.chance(1, 5) => Cond::NlOut(self.rng.pick(&["false", "0", "no", "", "true", "x"]).to_string()),
            5 if self.rng.chance(1, 4) => Cond::NotNot(self.rng.pick(&["true", "false", "0", "yes", "OR", "hello", "no"]).to_string()),
            6 if self.n_arrays > 0 && !ctx.scoped && self.opts.lib_calls && self.rng.chance(1, 3) => Cond::Lib { arr: self.rng.usize(self.n_arrays), val: self.rng.pick(&["a", "b", "c", "d d", "zz"]).to_string() },
            5 | 6 => Cond::Cnd { site: self.new_cnd(3), negate: self.rng.chance(1, 4) },
            7 | 8 => Cond::Equals { a: self.cond_value(ctx), b: self.value(), negate: self.rng.chance(1, 4) },
            _ => {
                if self.opts.functions && self.n_fns > 0 && ctx.in_fn.is_none() && self.rng.chance(1, 2) {
                    let f = self.rng.usize(self.n_fns);
                    let n = self.rng.usize(3);
                    // (argument values spelled like the condition keywords are still just argument values)
                    // only when no function body reads its parameters: such a value must never reach a condition,
                    // where it would be a keyword (C06's ground), not a value
                    let kw_ok = self.no_params_read;
                    let odd = self.opts.odd_cond_args && self.rng.chance(1, 3);
                    Cond::Call { f: format!("f{}", f), args: (0..n.max(if kw_ok || odd { 1 } else { 0 })).map(|k| if odd && k == 0 { self.rng.pick(&ODD_COND_ARGS).to_string() } else if kw_ok && k == 0 && self.rng.chance(1, 2) { self.rng.pick(&["and", "or"]).to_string() } else { self.tpl(ctx) }).collect() }
                } else {
                    Cond::Cnd { site: self.new_cnd(3), negate: false }
                }
            }
        }
    }
    fn block(&mut self, ctx: &Ctx, max: usize) -> Vec<Stmt> {
        let n = if self.rng.chance(1, 10) { 0 } else { 1 + self.rng.usize(max) };
        let mut v = vec![];
        for _ in 0..n {
            if self.budget <= 0 {
                break;
            }
            v.push(self.stmt(ctx));
        }
        v
    }
    fn stmt(&mut self, ctx: &Ctx) -> Stmt {
        self.budget -= 1;
        let mut w = self.w;
        if ctx.depth >= if self.big == 2 { 8 } else { self.opts.max_depth } {
            w[3] = 0;
            w[4] = 0;
            w[5] = 0;
        }
        if !(self.opts.functions && self.n_fns > 0 && ctx.calls_ok) {
            w[6] = 0;
        }
        if ctx.in_fn.is_none() {
            w[7] = 0;
        }
        if self.opts.avoid_forin_return && ctx.in_for && ctx.in_fn.is_some() {
            w[7] = 0;
            w[6] = 0;
        }
        match self.rng.weighted(&w) {
            0 => {
                let n = 1 + self.rng.usize(3);
                Stmt::Emit((0..n).map(|_| self.tpl_emit(ctx)).collect())
            }
            1 => {
                let x = if ctx.scoped { *self.rng.pick(&["x0", "x1"]) } else { *self.rng.pick(&XVARS) };
                Stmt::Set(x.to_string(), self.tpl(ctx))
            }
            2 => {
                let x = if self.rng.chance(1, 2) { Some(self.rng.pick(&XVARS).to_string()) } else { None };
                Stmt::Fail(x, format!("oops{}", self.rng.below(10)))
            }
            3 => {
                let nb = 1 + if self.rng.chance(1, 2) { self.rng.usize(if self.big == 3 { 9 } else { 3 }) } else { 0 };
                let mut branches = vec![];
                let inner = Ctx { depth: ctx.depth + 1, ..ctx.clone() };
                for _ in 0..nb {
                    let c = self.cond(ctx, false);
                    let guarded = matches!(c, Cond::Cnd { negate: false, .. });
                    let bctx = Ctx { calls_ok: ctx.calls_ok || (ctx.in_fn.is_some() && guarded), ..inner.clone() };
                    branches.push((c, self.block(&bctx, 3)));
                }
                let els = if self.rng.chance(1, 2) { Some(self.block(&inner, 3)) } else { None };
                Stmt::If { branches, els, sp: self.rng.next_u64() as u32 }
            }
            4 => {
                let c = self.cond(ctx, true);
                let inner = Ctx { depth: ctx.depth + 1, ..ctx.clone() };
                Stmt::While { cond: c, body: self.block(&inner, 3), sp: self.rng.next_u64() as u32 }
            }
            5 => {
                let var = format!("i{}", ctx.loop_vars.len());
                let arr = if self.n_arrays > 0 && !ctx.scoped && self.rng.chance(1, 2) {
                    ArrRef::Global(self.rng.usize(self.n_arrays))
                } else {
                    let n = if self.big == 4 && self.rng.chance(1, 3) { 17 + self.rng.usize(8) } else { self.rng.usize(4) };
                    ArrRef::Inline((0..n).map(|_| self.rng.pick(&["p", "q", "r", "s s", "0"]).to_string()).collect())
                };
                let mut inner = Ctx { depth: ctx.depth + 1, in_for: true, ..ctx.clone() };
                inner.loop_vars.push(var.clone());
                let id = self.n_for;
                self.n_for += 1;
                Stmt::ForIn { var, arr, body: self.block(&inner, 3), sp: self.rng.next_u64() as u32, id }
            }
            6 => {
                let f = self.rng.usize(self.n_fns);
                let n = if self.big == 5 && self.rng.chance(1, 3) { 10 + self.rng.usize(3) } else { self.rng.usize(3) };
                let out = if self.rng.chance(2, 3) { Some(self.rng.pick(&RVARS).to_string()) } else { None };
                let show = out.is_some() && self.rng.chance(3, 4);
                Stmt::Call { out, f: format!("f{}", f), args: (0..n).map(|_| self.tpl(ctx)).collect(), show }
            }
            _ => Stmt::Return(if self.rng.chance(3, 4) { Some(self.tpl(ctx)) } else { None }),
        }
    }
}

/// a script-implemented SDK command invoked without output variable: no emit, no variable change - invisible to
/// the model; some of them report an error (bad handle). Their scripts use if/for/while/end themselves, so they
/// exercise the block bookkeeping (per-line tables, call stacks, line context) from inside open blocks.
fn lib_call(rng: &mut Rng, n_arrays: usize, scoped: bool) -> String {
    let arr = if n_arrays > 0 && !scoped { format!("${{a{}}}", rng.usize(n_arrays)) } else { "nohandle".to_string() };
    match rng.below(11) {
        10 => format!("subrun {}", 1 + rng.usize(4)),
        0 => format!("array_contains {} b", arr),
        1 => format!("array_contains {} zz", arr),
        2 => format!("array_join {} ,", arr),
        3 => "array_join nohandle ,".to_string(),
        4 => format!("array_is_empty {}", arr),
        5 => "concat a b c".to_string(),
        6 => "join_path a b/ /c".to_string(),
        7 => format!("array_concat {} nohandle", arr),
        8 => "map_contains_value nohandle v".to_string(),
        _ => "set_from_array nohandle".to_string(),
    }
}

fn plant_lib_calls(stmts: &mut Vec<Stmt>, rng: &mut Rng, n_arrays: usize, scoped: bool) {
    let mut i = 0;
    while i <= stmts.len() {
        if rng.chance(1, 5) {
            stmts.insert(i, Stmt::Raw(lib_call(rng, n_arrays, scoped)));
            i += 1;
        }
        if i < stmts.len() {
            match &mut stmts[i] {
                Stmt::If { branches, els, .. } => {
                    for (_, b) in branches.iter_mut() {
                        plant_lib_calls(b, rng, n_arrays, scoped);
                    }
                    if let Some(e) = els {
                        plant_lib_calls(e, rng, n_arrays, scoped);
                    }
                }
                Stmt::While { body, .. } | Stmt::ForIn { body, .. } => plant_lib_calls(body, rng, n_arrays, scoped),
                _ => {}
            }
        }
        i += 1;
    }
}

pub fn generate_program(rng: &mut Rng, opts: &GenOpts) -> Program {
    let n_fns = if opts.functions { rng.usize(4) } else { 0 };
    let n_arrays = rng.usize(3);
    let mut w: [u32; 8] = [10, 6, if opts.faults { 2 } else { 0 }, 5, 3, 3, if opts.functions { 6 } else { 0 }, if opts.functions { 4 } else { 0 }];
    for x in w.iter_mut().skip(2) {
        if rng.chance(1, 5) {
            *x = 0;
        } else if rng.chance(1, 4) {
            *x *= 2;
        }
    }
    let size = match rng.below(3) {
        0 => 6,
        1 => 16,
        _ => opts.max_stmts as i64,
    };
    let big: u8 = if rng.chance(1, 20) { *rng.pick(&[1u8, 2, 3, 4, 5, 6, 7, 7]) } else { 0 };
    let arrays: Vec<Vec<String>> = (0..n_arrays)
        .map(|_| {
            let n = if big == 4 && rng.chance(1, 2) { 17 + rng.usize(24) } else if big == 7 && rng.chance(1, 2) { 65 + rng.usize(80) } else { rng.usize(4) };
            (0..n).map(|_| rng.pick(&["a", "b", "c", "d d", ""]).to_string()).filter(|s| !s.is_empty()).collect()
        })
        .collect();
    let mut g = G { big, no_params_read: true, rng, opts: opts.clone(), n_cnd: 0, n_for: 0, budget: size, n_fns, n_arrays, w };
    let mut fns = vec![];
    for k in 0..n_fns {
        let scoped = g.rng.chance(1, 3);
        let n_params = if g.big == 5 && g.rng.chance(1, 2) { 10 + g.rng.usize(3) } else { g.rng.usize(3) };
        if n_params > 0 {
            g.no_params_read = false;
        }
        let ctx = Ctx { depth: 1, in_fn: Some(k), scoped, n_params, loop_vars: vec![], in_for: false, calls_ok: false };
        g.budget = (size / 2).max(3);
        let mut body = g.block(&ctx, 5);
        if g.rng.chance(1, 2) {
            body.push(Stmt::Return(if g.rng.chance(3, 4) { Some(g.tpl(&ctx)) } else { None }));
        }
        fns.push(FnDef { name: format!("f{}", k), scoped, body, sp: g.rng.next_u64() as u32 });
    }
    g.budget = size;
    let ctx = Ctx { depth: 0, in_fn: None, scoped: false, n_params: 0, loop_vars: vec![], in_for: false, calls_ok: true };
    let mut main = vec![];
    // a few initial assignments so that conditions have something to read
    for x in XVARS.iter().take(g.rng.usize(4)) {
        let v = g.value();
        main.push(Stmt::Set(x.to_string(), v));
    }
    let n_main = 1 + g.rng.usize(8);
    for _ in 0..n_main {
        if g.budget <= 0 {
            break;
        }
        main.push(g.stmt(&ctx));
    }
    if g.rng.chance(1, 2) {
        main.push(Stmt::Emit(vec!["end".to_string()]));
    }
    if g.big == 7 && g.rng.chance(2, 3) {
        // the whole program as the taken branch of one enclosing if: whatever happens inside (long loops, many
        // blocks entered and left), the enclosing block must still know that its branch was taken when its
        // elseif / else lines are reached
        let sp = g.rng.next_u64() as u32;
        let mut branches = vec![(Cond::Val("yes".to_string()), std::mem::take(&mut main))];
        if g.rng.chance(1, 2) {
            branches.push((Cond::Val("true".to_string()), vec![Stmt::Emit(vec!["enclosing-elseif-taken".to_string()])]));
        }
        main = vec![Stmt::If { branches, els: Some(vec![Stmt::Emit(vec!["enclosing-else-taken".to_string()])]), sp }, Stmt::Emit(vec!["after-enclosing".to_string()])];
    }
    let n_cnd = g.n_cnd;
    let cnd: Vec<Vec<bool>> = (0..n_cnd)
        .map(|_| {
            // (7: loops of more than 64 rounds - bookkeeping that is capped or never popped shows there)
            let long = g.big == 7 && g.rng.chance(1, 2);
            let n = if g.big == 6 && g.rng.chance(1, 4) { 8 + g.rng.usize(12) } else if long { 65 + g.rng.usize(80) } else { g.rng.usize(4) };
            (0..n).map(|_| if long { g.rng.chance(19, 20) } else { g.rng.chance(2, 3) }).collect()
        })
        .collect();
    let fail_leaf = if opts.faults && g.rng.chance(2, 3) {
        let n = 1 + g.rng.usize(3);
        (0..n).map(|_| g.rng.below(30) as u32).collect()
    } else {
        vec![]
    };
    if opts.avoid_fullname_else {
        // nothing to do here: the renderer consults AVOID_FULLNAME_ELSE through `sp` re-rolls below
    }
    let crlf = g.rng.chance(1, 12);
    let mut p = Program { fns, arrays, main, cnd, fail_leaf, forever: opts.looping, crlf };
    if opts.lib_calls && g.rng.chance(1, 3) {
        let n_arrays = p.arrays.len();
        plant_lib_calls(&mut p.main, g.rng, n_arrays, false);
        for f in p.fns.iter_mut() {
            let scoped = f.scoped;
            plant_lib_calls(&mut f.body, g.rng, n_arrays, scoped);
        }
    }
    if opts.avoid_fullname_else {
        reroll_else_spellings(&mut p);
    }
    p
}

/// re-roll `sp` of every if-block until neither elseif nor else renders with its full name
fn reroll_else_spellings(p: &mut Program) {
    fn fix(stmts: &mut Vec<Stmt>) {
        for s in stmts.iter_mut() {
            match s {
                Stmt::If { branches, els, sp } => {
                    let mut tries = 0;
                    loop {
                        let mut bad = false;
                        for i in 1..branches.len() {
                            if pick(*sp, i as u32, &ELSEIF_SP).contains("::") {
                                bad = true;
                            }
                        }
                        if els.is_some() && pick(*sp, 100, &ELSE_SP).contains("::") {
                            bad = true;
                        }
                        if !bad || tries > 200 {
                            break;
                        }
                        *sp = sp.wrapping_mul(1664525).wrapping_add(1013904223);
                        tries += 1;
                    }
                    for (_, b) in branches.iter_mut() {
                        fix(b);
                    }
                    if let Some(e) = els {
                        fix(e);
                    }
                }
                Stmt::While { body, .. } | Stmt::ForIn { body, .. } => fix(body),
                _ => {}
            }
        }
    }
    for f in p.fns.iter_mut() {
        fix(&mut f.body);
    }
    fix(&mut p.main);
}

/// some function that is called in condition position (directly) contains a Fail statement
pub fn has_fail_in_condition_called_function(p: &Program) -> bool {
    fn has_fail(stmts: &[Stmt]) -> bool {
        stmts.iter().any(|s| match s {
            Stmt::Fail(_, _) => true,
            Stmt::If { branches, els, .. } => branches.iter().any(|(_, b)| has_fail(b)) || els.as_ref().map(|e| has_fail(e)).unwrap_or(false),
            Stmt::While { body, .. } | Stmt::ForIn { body, .. } => has_fail(body),
            _ => false,
        })
    }
    fn cond_calls(stmts: &[Stmt], out: &mut Vec<String>) {
        for s in stmts {
            match s {
                Stmt::If { branches, els, .. } => {
                    for (c, b) in branches {
                        if let Cond::Call { f, .. } = c {
                            out.push(f.clone());
                        }
                        cond_calls(b, out);
                    }
                    if let Some(e) = els {
                        cond_calls(e, out);
                    }
                }
                Stmt::While { cond, body, .. } => {
                    if let Cond::Call { f, .. } = cond {
                        out.push(f.clone());
                    }
                    cond_calls(body, out);
                }
                Stmt::ForIn { body, .. } => cond_calls(body, out),
                _ => {}
            }
        }
    }
    let mut called = vec![];
    cond_calls(&p.main, &mut called);
    for f in &p.fns {
        cond_calls(&f.body, &mut called);
    }
    p.fns.iter().any(|f| called.contains(&f.name) && has_fail(&f.body))
}

pub fn uses_fullname_else(p: &Program) -> bool {
    fn scan(stmts: &[Stmt]) -> bool {
        for s in stmts {
            match s {
                Stmt::If { branches, els, sp } => {
                    for i in 1..branches.len() {
                        if pick(*sp, i as u32, &ELSEIF_SP).contains("::") {
                            return true;
                        }
                    }
                    if els.is_some() && pick(*sp, 100, &ELSE_SP).contains("::") {
                        return true;
                    }
                    if branches.iter().any(|(_, b)| scan(b)) || els.as_ref().map(|e| scan(e)).unwrap_or(false) {
                        return true;
                    }
                }
                Stmt::While { body, .. } | Stmt::ForIn { body, .. } => {
                    if scan(body) {
                        return true;
                    }
                }
                _ => {}
            }
        }
        false
    }
    p.fns.iter().any(|f| scan(&f.body)) || scan(&p.main)
}

/// does some function body contain a `return` or a call lexically inside a for-in body?
pub fn has_return_or_call_in_forin(p: &Program) -> bool {
    fn scan(stmts: &[Stmt], in_for: bool) -> bool {
        for s in stmts {
            match s {
                Stmt::Return(_) | Stmt::Call { .. } if in_for => return true,
                Stmt::If { branches, els, .. } => {
                    if branches.iter().any(|(c, b)| (in_for && matches!(c, Cond::Call { .. })) || scan(b, in_for)) || els.as_ref().map(|e| scan(e, in_for)).unwrap_or(false) {
                        return true;
                    }
                }
                Stmt::While { body, cond, .. } => {
                    if (in_for && matches!(cond, Cond::Call { .. })) || scan(body, in_for) {
                        return true;
                    }
                }
                Stmt::ForIn { body, .. } => {
                    if scan(body, true) {
                        return true;
                    }
                }
                _ => {}
            }
        }
        false
    }
    p.fns.iter().any(|f| scan(&f.body, false))
}

// ------------------------------------------------------------------ shrinking

fn called_fns(stmts: &[Stmt], acc: &mut BTreeSet<String>) {
    for s in stmts {
        match s {
            Stmt::Call { f, .. } => {
                acc.insert(f.clone());
            }
            Stmt::If { branches, els, .. } => {
                for (c, b) in branches {
                    if let Cond::Call { f, .. } = c {
                        acc.insert(f.clone());
                    }
                    called_fns(b, acc);
                }
                if let Some(e) = els {
                    called_fns(e, acc);
                }
            }
            Stmt::While { cond, body, .. } => {
                if let Cond::Call { f, .. } = cond {
                    acc.insert(f.clone());
                }
                called_fns(body, acc);
            }
            Stmt::ForIn { body, .. } => called_fns(body, acc),
            _ => {}
        }
    }
}

/// all variants of a block with one statement removed / one block unwrapped / one piece simplified
fn shrink_block(stmts: &[Stmt]) -> Vec<Vec<Stmt>> {
    let mut out = vec![];
    for i in 0..stmts.len() {
        let mut v = stmts.to_vec();
        v.remove(i);
        out.push(v);
    }
    for i in 0..stmts.len() {
        let mut replace = |new: Vec<Stmt>| {
            let mut v = stmts.to_vec();
            v.splice(i..i + 1, new);
            out.push(v);
        };
        match &stmts[i] {
            Stmt::If { branches, els, sp } => {
                for (_, b) in branches {
                    replace(b.clone());
                }
                if let Some(e) = els {
                    replace(e.clone());
                    replace(vec![Stmt::If { branches: branches.clone(), els: None, sp: *sp }]);
                }
                if branches.len() > 1 {
                    for k in 0..branches.len() {
                        let mut b2 = branches.clone();
                        b2.remove(k);
                        replace(vec![Stmt::If { branches: b2, els: els.clone(), sp: *sp }]);
                    }
                }
                for (k, (c, b)) in branches.iter().enumerate() {
                    for nb in shrink_block(b) {
                        let mut b2 = branches.clone();
                        b2[k] = (c.clone(), nb);
                        replace(vec![Stmt::If { branches: b2, els: els.clone(), sp: *sp }]);
                    }
                    if !matches!(c, Cond::Val(_)) {
                        for lit in ["true", "false"] {
                            let mut b2 = branches.clone();
                            b2[k] = (Cond::Val(lit.to_string()), b.clone());
                            replace(vec![Stmt::If { branches: b2, els: els.clone(), sp: *sp }]);
                        }
                    }
                }
                if let Some(e) = els {
                    for ne in shrink_block(e) {
                        replace(vec![Stmt::If { branches: branches.clone(), els: Some(ne), sp: *sp }]);
                    }
                }
                if *sp != 0 {
                    replace(vec![Stmt::If { branches: branches.clone(), els: els.clone(), sp: 0 }]);
                }
            }
            Stmt::While { cond, body, sp } => {
                replace(body.clone());
                for nb in shrink_block(body) {
                    replace(vec![Stmt::While { cond: cond.clone(), body: nb, sp: *sp }]);
                }
                if *sp != 0 {
                    replace(vec![Stmt::While { cond: cond.clone(), body: body.clone(), sp: 0 }]);
                }
            }
            Stmt::ForIn { var, arr, body, sp, id } => {
                for nb in shrink_block(body) {
                    replace(vec![Stmt::ForIn { var: var.clone(), arr: arr.clone(), body: nb, sp: *sp, id: *id }]);
                }
                if let ArrRef::Inline(vals) = arr {
                    for k in 0..vals.len() {
                        let mut v2 = vals.clone();
                        v2.remove(k);
                        replace(vec![Stmt::ForIn { var: var.clone(), arr: ArrRef::Inline(v2), body: body.clone(), sp: *sp, id: *id }]);
                    }
                }
                if *sp != 0 {
                    replace(vec![Stmt::ForIn { var: var.clone(), arr: arr.clone(), body: body.clone(), sp: 0, id: *id }]);
                }
            }
            Stmt::Emit(args) if args.len() > 1 => {
                for k in 0..args.len() {
                    let mut a = args.clone();
                    a.remove(k);
                    replace(vec![Stmt::Emit(a)]);
                }
            }
            Stmt::Call { out, f, args, show } => {
                if !args.is_empty() {
                    replace(vec![Stmt::Call { out: out.clone(), f: f.clone(), args: vec![], show: *show }]);
                }
                if out.is_some() {
                    replace(vec![Stmt::Call { out: None, f: f.clone(), args: args.clone(), show: false }]);
                }
            }
            _ => {}
        }
    }
    out
}

pub fn shrink_program(p: &Program) -> Vec<Program> {
    let mut out = vec![];
    // drop functions nobody calls
    let mut called = BTreeSet::new();
    called_fns(&p.main, &mut called);
    for f in &p.fns {
        called_fns(&f.body, &mut called);
    }
    for (k, f) in p.fns.iter().enumerate() {
        if !called.contains(&f.name) {
            let mut q = p.clone();
            q.fns.remove(k);
            out.push(q);
        }
    }
    if !p.fail_leaf.is_empty() {
        let mut q = p.clone();
        q.fail_leaf.clear();
        out.push(q);
        for k in 0..p.fail_leaf.len() {
            let mut q = p.clone();
            q.fail_leaf.remove(k);
            out.push(q);
        }
    }
    if p.forever {
        let mut q = p.clone();
        q.forever = false;
        out.push(q);
    }
    for m in shrink_block(&p.main) {
        let mut q = p.clone();
        q.main = m;
        out.push(q);
    }
    for (k, f) in p.fns.iter().enumerate() {
        for b in shrink_block(&f.body) {
            let mut q = p.clone();
            q.fns[k].body = b;
            out.push(q);
        }
        if f.scoped {
            let mut q = p.clone();
            q.fns[k].scoped = false;
            out.push(q);
        }
        if f.sp != 0 {
            let mut q = p.clone();
            q.fns[k].sp = 0;
            out.push(q);
        }
    }
    for (k, s) in p.cnd.iter().enumerate() {
        if !s.is_empty() {
            let mut q = p.clone();
            q.cnd[k].pop();
            out.push(q);
        }
    }
    out.retain(|q| q != p);
    out
}
