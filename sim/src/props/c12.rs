//! C12 - arrays, maps and sets behind handles vs plain counterparts (Appendix D.4).

use crate::prop::{Outcome, Prop, PropInfo, Verdict, WorkerEnv};
use crate::props::ops::{s, OpWorld, Out, Want};
use crate::rng::Rng;
use crate::sim::{self, Core, StartInfo};
use duckscript::types::command::CommandResult;
use serde::{Deserialize, Serialize};
use serde_json::Value;
use std::cell::RefCell;
use std::collections::{BTreeMap, BTreeSet};

/// a handle argument: a collection the history created (live or released by now) or a string that never was one
#[derive(Serialize, Deserialize, Clone, Debug, PartialEq)]
pub enum H {
    Id(usize),
    Fake(String),
    /// the handle string of a collection of the history with a small change (padded with a blank or a line break, in
    /// upper case, one character short or long): a string that never was a handle
    Near(usize, u8),
}

/// a value argument: a literal or the handle string of a collection of the history
#[derive(Serialize, Deserialize, Clone, Debug, PartialEq)]
pub enum V {
    Lit(String),
    HandleOf(usize),
}

#[derive(Serialize, Deserialize, Clone, Debug, PartialEq)]
pub enum Op {
    Array(Vec<V>),
    Map,
    SetNew(Vec<V>),
    Range(String, String),
    Push(H, Vec<V>),
    Pop(H),
    Get(H, String),
    Set(H, String, V),
    Remove(H, String),
    Clear(H),
    Length(H),
    IsEmpty(H),
    Contains(H, V),
    Join(H, String),
    Concat(Vec<H>),
    MPut(H, V, V),
    MGet(H, V),
    MRemove(H, V),
    MSize(H),
    MKeys(H),
    MClear(H),
    MContainsKey(H, V),
    MContainsValue(H, V),
    MIsEmpty(H),
    SPut(H, Vec<V>),
    SRemove(H, V),
    SContains(H, V),
    SSize(H),
    SClear(H),
    SToArray(H),
    SFromArray(H),
    SIsEmpty(H),
    IsArray(H),
    IsMap(H),
    IsSet(H),
    Release(H, bool),
    /// `release <something that is not the flag> <handle>`: the first argument is taken for the handle (unknown): false, nothing released
    ReleaseOddFlag(String, H),
}

#[derive(Serialize, Deserialize, Clone, Debug, PartialEq)]
pub struct Case {
    pub entropy: u64,
    /// every operation is its own top-level run on the context the previous run returned
    #[serde(default)]
    pub separate_runs: bool,
    pub ops: Vec<Op>,
    /// (operation index, k): the k-th nested invocation inside that operation answers Error (F1 nested)
    pub inject: Vec<(usize, u32)>,
}

#[derive(Clone, Debug, PartialEq)]
enum Coll {
    Arr(Vec<String>),
    Map(BTreeMap<String, String>),
    Set(BTreeSet<String>),
}

struct Model {
    /// per id: the real handle string and the collection while live
    slots: Vec<(String, Option<Coll>)>,
    /// handles that may exist in the real table without the model knowing (half-built results after an injected fault)
    allowance: usize,
}

impl Model {
    fn live(&self) -> usize {
        self.slots.iter().filter(|s| s.1.is_some()).count()
    }
    fn by_string(&self, h: &str) -> Option<usize> {
        self.slots.iter().position(|s| s.0 == h && s.1.is_some())
    }
    fn resolve_h(&self, h: &H) -> String {
        match h {
            H::Id(i) => self.slots.get(*i).map(|s| s.0.clone()).unwrap_or_else(|| "handle:neverexisted00000000".to_string()),
            H::Fake(f) => f.clone(),
            H::Near(i, k) => {
                let h = self.slots.get(*i).map(|s| s.0.clone()).unwrap_or_else(|| "handle:neverexisted00000000".to_string());
                match k % 6 {
                    0 => format!("{} ", h),
                    1 => format!(" {}", h),
                    2 => format!("{}\n", h),
                    3 => {
                        let u = h.to_uppercase();
                        if u == h { format!("{}x", h) } else { u }
                    }
                    4 => h[..h.len() - 1].to_string(),
                    _ => format!("{}x", h),
                }
            }
        }
    }
    fn resolve_v(&self, v: &V) -> String {
        match v {
            V::Lit(l) => l.clone(),
            V::HandleOf(i) => self.slots.get(*i).map(|s| s.0.clone()).unwrap_or_else(|| "handle:neverexisted00000000".to_string()),
        }
    }
    fn coll(&mut self, h: &H) -> Option<&mut Coll> {
        match h {
            H::Id(i) => self.slots.get_mut(*i).and_then(|s| s.1.as_mut()),
            H::Fake(_) | H::Near(_, _) => None,
        }
    }
    fn arr(&mut self, h: &H) -> Option<&mut Vec<String>> {
        match self.coll(h) {
            Some(Coll::Arr(a)) => Some(a),
            _ => None,
        }
    }
    fn map(&mut self, h: &H) -> Option<&mut BTreeMap<String, String>> {
        match self.coll(h) {
            Some(Coll::Map(m)) => Some(m),
            _ => None,
        }
    }
    fn set(&mut self, h: &H) -> Option<&mut BTreeSet<String>> {
        match self.coll(h) {
            Some(Coll::Set(x)) => Some(x),
            _ => None,
        }
    }
    fn release(&mut self, handle: &str, recursive: bool) -> bool {
        match self.by_string(handle) {
            None => false,
            Some(i) => {
                let c = self.slots[i].1.take();
                if recursive {
                    let inner: Vec<String> = match c {
                        Some(Coll::Arr(a)) => a,
                        Some(Coll::Map(m)) => m.values().cloned().collect(),
                        Some(Coll::Set(x)) => x.into_iter().collect(),
                        None => vec![],
                    };
                    for v in inner {
                        self.release(&v, true);
                    }
                }
                true
            }
        }
    }
}

// ------------------------------------------------------------------ nested fault plan

struct Plan {
    inject: Vec<(usize, u32)>,
    current_op: usize,
    nested: u32,
    fired_in_current: bool,
}

thread_local! {
    static PLAN: RefCell<Option<Plan>> = RefCell::new(None);
}

fn nested_fault(core: &mut Core, info: &StartInfo) -> Option<CommandResult> {
    if info.depth == 0 {
        return None;
    }
    // flow-control commands are never fault points: they cannot fail once their block has started
    let flow = info.name.starts_with("std::flowcontrol::") || info.name == "end";
    let hit = !flow && PLAN.with(|p| {
        let mut p = p.borrow_mut();
        match p.as_mut() {
            Some(p) => {
                let k = p.nested;
                p.nested += 1;
                let hit = p.inject.iter().any(|(op, kk)| *op == p.current_op && *kk == k);
                if hit {
                    p.fired_in_current = true;
                }
                hit
            }
            None => false,
        }
    });
    if hit {
        core.fire("F1", &format!("nested inj at {} depth {}", info.name, info.depth));
        Some(CommandResult::Error("inj-nested".to_string()))
    } else {
        None
    }
}

fn begin_op(i: usize) {
    PLAN.with(|p| {
        if let Some(p) = p.borrow_mut().as_mut() {
            p.current_op = i;
            p.nested = 0;
            p.fired_in_current = false;
        }
    });
}

fn fault_fired() -> bool {
    PLAN.with(|p| p.borrow().as_ref().map(|p| p.fired_in_current).unwrap_or(false))
}

fn pause_plan() {
    PLAN.with(|p| {
        if let Some(p) = p.borrow_mut().as_mut() {
            p.current_op = usize::MAX;
        }
    });
}

// ------------------------------------------------------------------ execution

fn read_array(world: &mut OpWorld, h: &str) -> Result<Vec<String>, String> {
    let n: usize = match world.run("array_length", &[s(h)]) {
        Out::Val(v) => v.parse().map_err(|_| format!("array_length {} answered {}", h, v))?,
        o => return Err(format!("array_length {} answered {}", h, o.show())),
    };
    let mut v = vec![];
    for i in 0..n {
        match world.run("array_get", &[s(h), i.to_string()]) {
            Out::Val(x) => v.push(x),
            o => return Err(format!("array_get {} {} answered {}", h, i, o.show())),
        }
    }
    Ok(v)
}

/// re-read every live collection through public commands and compare in full
fn verify_all(world: &mut OpWorld, m: &Model, after: &str) -> Option<String> {
    pause_plan();
    for (id, (h, c)) in m.slots.iter().enumerate() {
        let c = match c {
            Some(c) => c,
            None => continue,
        };
        match c {
            Coll::Arr(a) => match read_array(world, h) {
                Ok(real) => {
                    if &real != a {
                        return Some(format!("after {}: array #{} holds {:?}, model {:?}", after, id, real, a));
                    }
                }
                Err(e) => return Some(format!("after {}: array #{} unreadable: {}", after, id, e)),
            },
            Coll::Map(mm) => {
                let size = world.run("map_size", &[h.clone()]);
                if size.val() != Some(mm.len().to_string().as_str()) {
                    return Some(format!("after {}: map #{} size {}, model {}", after, id, size.show(), mm.len()));
                }
                let keys_h = match world.run("map_keys", &[h.clone()]) {
                    Out::Val(k) => k,
                    o => return Some(format!("after {}: map_keys of map #{} answered {}", after, id, o.show())),
                };
                let keys = read_array(world, &keys_h);
                world.run("release", &[keys_h]);
                match keys {
                    Ok(mut ks) => {
                        ks.sort();
                        let want: Vec<String> = mm.keys().cloned().collect();
                        if ks != want {
                            return Some(format!("after {}: map #{} keys {:?}, model {:?}", after, id, ks, want));
                        }
                    }
                    Err(e) => return Some(format!("after {}: keys of map #{} unreadable: {}", after, id, e)),
                }
                for (k, v) in mm.iter() {
                    let got = world.run("map_get", &[h.clone(), k.clone()]);
                    if got.val() != Some(v.as_str()) {
                        return Some(format!("after {}: map #{} [{:?}] = {}, model {:?}", after, id, k, got.show(), v));
                    }
                }
            }
            Coll::Set(x) => {
                let arr_h = match world.run("set_to_array", &[h.clone()]) {
                    Out::Val(k) if k.starts_with("handle:") => k,
                    o => return Some(format!("after {}: set_to_array of set #{} answered {}", after, id, o.show())),
                };
                let items = read_array(world, &arr_h);
                world.run("release", &[arr_h]);
                match items {
                    Ok(mut it) => {
                        it.sort();
                        let want: Vec<String> = x.iter().cloned().collect();
                        if it != want {
                            return Some(format!("after {}: set #{} holds {:?}, model {:?}", after, id, it, want));
                        }
                    }
                    Err(e) => return Some(format!("after {}: set #{} unreadable: {}", after, id, e)),
                }
            }
        }
    }
    let real_n = world.handle_count();
    let live = m.live();
    if real_n < live || real_n > live + m.allowance {
        return Some(format!("after {}: the handle table holds {} entries, the model {} live collections (+{} tolerated)", after, real_n, live, m.allowance));
    }
    // distinctness of live handles
    let mut seen = BTreeSet::new();
    for (h, c) in m.slots.iter() {
        if c.is_some() && !seen.insert(h.clone()) {
            return Some(format!("after {}: two live collections share the handle {}", after, h));
        }
    }
    None
}

fn new_slot(m: &mut Model, out: &Out, c: Coll, label: &str) {
    match out {
        Out::Val(h) if h.starts_with("handle:") => {
            if m.by_string(h).is_some() {
                sim::with_core(|cr| cr.violate("handle-not-fresh", format!("{}: returned handle {} is that of a live collection", label, h)));
            }
            m.slots.push((h.clone(), Some(c)));
        }
        _ => {
            // creation did not succeed (already reported as output mismatch unless a fault explains it); keep ids aligned
            m.slots.push((format!("handle:failedcreate{:08}", m.slots.len()), None));
        }
    }
}

fn idx(i: &str) -> Option<usize> {
    i.parse::<usize>().ok()
}

fn run_case(case: &Case) -> Verdict {
    let mut world = OpWorld::new_sdk();
    if case.separate_runs {
        world.run_mode = Some(false);
        sim::with_core(|c| c.probe("one-run-per-operation-on-the-returned-context"));
    }
    PLAN.with(|p| *p.borrow_mut() = Some(Plan { inject: case.inject.clone(), current_op: usize::MAX, nested: 0, fired_in_current: false }));
    sim::with_core(|c| {
        c.pre_hook = Some(nested_fault);
        // the step budget is no liveness bound here: re-reading every live collection after every step is what costs
        c.budget = u64::MAX / 2;
    });
    let mut m = Model { slots: vec![], allowance: 0 };
    for (i, op) in case.ops.iter().enumerate() {
        let label = format!("op #{} {:?}", i, op);
        begin_op(i);
        // helper closures cannot borrow both world and model mutably; resolve strings first
        macro_rules! hs {
            ($h:expr) => {
                m.resolve_h($h)
            };
        }
        macro_rules! vs {
            ($v:expr) => {
                m.resolve_v($v)
            };
        }
        // Every op: compute (command, args, want, effect) from the model BEFORE running, run, then apply the effect
        // unless an injected nested fault fired (then the op must fail and change nothing, modulo half-built results).
        let mut effect: Option<Box<dyn FnOnce(&mut Model, &Out)>> = None;
        let (cmd, args, want): (&str, Vec<String>, Want) = match op {
            Op::Array(vals) => {
                let v: Vec<String> = vals.iter().map(|x| vs!(x)).collect();
                let vv = v.clone();
                let l = label.clone();
                effect = Some(Box::new(move |m, o| new_slot(m, o, Coll::Arr(vv), &l)));
                ("array", v, Want::Handle)
            }
            Op::Map => {
                let l = label.clone();
                effect = Some(Box::new(move |m, o| new_slot(m, o, Coll::Map(BTreeMap::new()), &l)));
                ("map", vec![], Want::Handle)
            }
            Op::SetNew(vals) => {
                let v: Vec<String> = vals.iter().map(|x| vs!(x)).collect();
                let vv: BTreeSet<String> = v.iter().cloned().collect();
                let l = label.clone();
                effect = Some(Box::new(move |m, o| new_slot(m, o, Coll::Set(vv), &l)));
                ("set_new", v, Want::Handle)
            }
            Op::Range(a, b) => {
                let parsed = (a.parse::<i64>(), b.parse::<i64>());
                match parsed {
                    (Ok(x), Ok(y)) if x <= y => {
                        let items: Vec<String> = (x..y).map(|n| n.to_string()).collect();
                        let l = label.clone();
                        effect = Some(Box::new(move |m, o| new_slot(m, o, Coll::Arr(items), &l)));
                        ("range", vec![a.clone(), b.clone()], Want::Handle)
                    }
                    _ => {
                        let l = label.clone();
                        effect = Some(Box::new(move |m, o| {
                            if let Out::Val(h) = o {
                                if h.starts_with("handle:") {
                                    sim::with_core(|c| c.violate("output-mismatch", format!("{}: a handle was returned for an invalid range", l)));
                                }
                            }
                            m.slots.push((format!("handle:failedcreate{:08}", m.slots.len()), None));
                        }));
                        ("range", vec![a.clone(), b.clone()], Want::Fail)
                    }
                }
            }
            Op::Push(h, vals) => {
                let v: Vec<String> = vals.iter().map(|x| vs!(x)).collect();
                let mut args = vec![hs!(h)];
                args.extend(v.iter().cloned());
                if m.arr(h).is_some() {
                    let hh = h.clone();
                    effect = Some(Box::new(move |m, _| m.arr(&hh).unwrap().extend(v)));
                    ("array_push", args, Want::True)
                } else {
                    ("array_push", args, Want::Fail)
                }
            }
            Op::Pop(h) => {
                let args = vec![hs!(h)];
                match m.arr(h) {
                    Some(a) => {
                        let want = match a.last() {
                            Some(x) => Want::Val(x.clone()),
                            None => Want::None,
                        };
                        let hh = h.clone();
                        effect = Some(Box::new(move |m, _| {
                            m.arr(&hh).unwrap().pop();
                        }));
                        ("array_pop", args, want)
                    }
                    None => ("array_pop", args, Want::NoneOrFail),
                }
            }
            Op::Get(h, i) => {
                let args = vec![hs!(h), i.clone()];
                match m.arr(h) {
                    Some(a) => match idx(i) {
                        Some(n) => ("array_get", args, if n < a.len() { Want::Val(a[n].clone()) } else { Want::None }),
                        None => ("array_get", args, Want::Fail),
                    },
                    None => ("array_get", args, Want::NoneOrFail),
                }
            }
            Op::Set(h, i, v) => {
                let val = vs!(v);
                let args = vec![hs!(h), i.clone(), val.clone()];
                match (m.arr(h).map(|a| a.len()), idx(i)) {
                    (Some(len), Some(n)) if n < len => {
                        let hh = h.clone();
                        effect = Some(Box::new(move |m, _| m.arr(&hh).unwrap()[n] = val));
                        ("array_set", args, Want::True)
                    }
                    _ => ("array_set", args, Want::Fail),
                }
            }
            Op::Remove(h, i) => {
                let args = vec![hs!(h), i.clone()];
                match (m.arr(h).map(|a| a.len()), idx(i)) {
                    (Some(len), Some(n)) if n < len => {
                        let hh = h.clone();
                        effect = Some(Box::new(move |m, _| {
                            m.arr(&hh).unwrap().remove(n);
                        }));
                        ("array_remove", args, Want::True)
                    }
                    _ => ("array_remove", args, Want::Fail),
                }
            }
            Op::Clear(h) => {
                let args = vec![hs!(h)];
                if m.arr(h).is_some() {
                    let hh = h.clone();
                    effect = Some(Box::new(move |m, _| m.arr(&hh).unwrap().clear()));
                    ("array_clear", args, Want::True)
                } else {
                    ("array_clear", args, Want::Fail)
                }
            }
            Op::Length(h) => {
                let args = vec![hs!(h)];
                match m.arr(h) {
                    Some(a) => ("array_length", args, Want::Val(a.len().to_string())),
                    None => ("array_length", args, Want::Fail),
                }
            }
            Op::IsEmpty(h) => {
                let args = vec![hs!(h)];
                match m.arr(h) {
                    Some(a) => ("array_is_empty", args, if a.is_empty() { Want::True } else { Want::False }),
                    None => ("array_is_empty", args, Want::Fail),
                }
            }
            Op::Contains(h, v) => {
                let val = vs!(v);
                let args = vec![hs!(h), val.clone()];
                match m.arr(h) {
                    Some(a) => match a.iter().position(|x| *x == val) {
                        Some(p) => ("array_contains", args, Want::Val(p.to_string())),
                        None => ("array_contains", args, Want::False),
                    },
                    None => ("array_contains", args, Want::Fail),
                }
            }
            Op::Join(h, sep) => {
                let args = vec![hs!(h), sep.clone()];
                match m.arr(h) {
                    Some(a) => {
                        let j = a.join(sep);
                        ("array_join", args, if j.is_empty() { Want::NoneOrEmpty } else { Want::Val(j) })
                    }
                    None => ("array_join", args, Want::Fail),
                }
            }
            Op::Concat(hv) => {
                let args: Vec<String> = hv.iter().map(|h| hs!(h)).collect();
                let mut all: Option<Vec<String>> = Some(vec![]);
                for h in hv {
                    match m.arr(h) {
                        Some(a) => {
                            if let Some(x) = all.as_mut() {
                                x.extend(a.iter().cloned());
                            }
                        }
                        None => all = None,
                    }
                }
                match all {
                    Some(items) => {
                        let l = label.clone();
                        effect = Some(Box::new(move |m, o| new_slot(m, o, Coll::Arr(items), &l)));
                        ("array_concat", args, Want::Handle)
                    }
                    None => {
                        effect = Some(Box::new(move |m, _| m.slots.push((format!("handle:failedcreate{:08}", m.slots.len()), None))));
                        ("array_concat", args, Want::Fail)
                    }
                }
            }
            Op::MPut(h, k, v) => {
                let (kk, vv) = (vs!(k), vs!(v));
                let args = vec![hs!(h), kk.clone(), vv.clone()];
                match m.map(h) {
                    Some(mm) => {
                        let existed = mm.contains_key(&kk);
                        let hh = h.clone();
                        effect = Some(Box::new(move |m, _| {
                            m.map(&hh).unwrap().insert(kk, vv);
                        }));
                        ("map_put", args, if existed { Want::TrueOrFalse } else { Want::True })
                    }
                    None => ("map_put", args, Want::Fail),
                }
            }
            Op::MGet(h, k) => {
                let kk = vs!(k);
                let args = vec![hs!(h), kk.clone()];
                match m.map(h) {
                    Some(mm) => ("map_get", args, match mm.get(&kk) { Some(v) => Want::Val(v.clone()), None => Want::None }),
                    None => ("map_get", args, Want::NoneOrFail),
                }
            }
            Op::MRemove(h, k) => {
                let kk = vs!(k);
                let args = vec![hs!(h), kk.clone()];
                match m.map(h) {
                    Some(mm) => {
                        let want = match mm.get(&kk) { Some(v) => Want::Val(v.clone()), None => Want::None };
                        let hh = h.clone();
                        effect = Some(Box::new(move |m, _| {
                            m.map(&hh).unwrap().remove(&kk);
                        }));
                        ("map_remove", args, want)
                    }
                    None => ("map_remove", args, Want::NoneOrFail),
                }
            }
            Op::MSize(h) => {
                let args = vec![hs!(h)];
                match m.map(h) {
                    Some(mm) => ("map_size", args, Want::Val(mm.len().to_string())),
                    None => ("map_size", args, Want::Fail),
                }
            }
            Op::MKeys(h) => {
                let args = vec![hs!(h)];
                match m.map(h) {
                    Some(mm) => {
                        let keys: Vec<String> = mm.keys().cloned().collect();
                        let l = label.clone();
                        effect = Some(Box::new(move |m, o| new_slot(m, o, Coll::Arr(keys), &l)));
                        ("map_keys", args, Want::Handle)
                    }
                    None => {
                        effect = Some(Box::new(move |m, _| m.slots.push((format!("handle:failedcreate{:08}", m.slots.len()), None))));
                        ("map_keys", args, Want::Fail)
                    }
                }
            }
            Op::MClear(h) => {
                let args = vec![hs!(h)];
                if m.map(h).is_some() {
                    let hh = h.clone();
                    effect = Some(Box::new(move |m, _| m.map(&hh).unwrap().clear()));
                    ("map_clear", args, Want::True)
                } else {
                    ("map_clear", args, Want::Fail)
                }
            }
            Op::MContainsKey(h, k) => {
                let kk = vs!(k);
                let args = vec![hs!(h), kk.clone()];
                match m.map(h) {
                    Some(mm) => ("map_contains_key", args, if mm.contains_key(&kk) { Want::True } else { Want::False }),
                    None => ("map_contains_key", args, Want::Fail),
                }
            }
            Op::MContainsValue(h, v) => {
                let vv = vs!(v);
                let args = vec![hs!(h), vv.clone()];
                match m.map(h) {
                    Some(mm) => ("map_contains_value", args, if mm.values().any(|x| *x == vv) { Want::True } else { Want::False }),
                    None => ("map_contains_value", args, Want::Fail),
                }
            }
            Op::MIsEmpty(h) => {
                let args = vec![hs!(h)];
                match m.map(h) {
                    Some(mm) => ("map_is_empty", args, if mm.is_empty() { Want::True } else { Want::False }),
                    None => ("map_is_empty", args, Want::Fail),
                }
            }
            Op::SPut(h, vals) => {
                let v: Vec<String> = vals.iter().map(|x| vs!(x)).collect();
                let mut args = vec![hs!(h)];
                args.extend(v.iter().cloned());
                match m.set(h) {
                    Some(x) => {
                        let all_new = v.iter().all(|e| !x.contains(e)) && v.iter().collect::<BTreeSet<_>>().len() == v.len();
                        let hh = h.clone();
                        effect = Some(Box::new(move |m, _| m.set(&hh).unwrap().extend(v)));
                        ("set_put", args, if all_new { Want::True } else { Want::TrueOrFalse })
                    }
                    None => ("set_put", args, Want::Fail),
                }
            }
            Op::SRemove(h, v) => {
                let vv = vs!(v);
                let args = vec![hs!(h), vv.clone()];
                match m.set(h) {
                    Some(x) => {
                        let want = if x.contains(&vv) { Want::True } else { Want::False };
                        let hh = h.clone();
                        effect = Some(Box::new(move |m, _| {
                            m.set(&hh).unwrap().remove(&vv);
                        }));
                        ("set_remove", args, want)
                    }
                    None => ("set_remove", args, Want::Fail),
                }
            }
            Op::SContains(h, v) => {
                let vv = vs!(v);
                let args = vec![hs!(h), vv.clone()];
                match m.set(h) {
                    Some(x) => ("set_contains", args, if x.contains(&vv) { Want::True } else { Want::False }),
                    None => ("set_contains", args, Want::Fail),
                }
            }
            Op::SSize(h) => {
                let args = vec![hs!(h)];
                match m.set(h) {
                    Some(x) => ("set_size", args, Want::Val(x.len().to_string())),
                    None => ("set_size", args, Want::Fail),
                }
            }
            Op::SClear(h) => {
                let args = vec![hs!(h)];
                if m.set(h).is_some() {
                    let hh = h.clone();
                    effect = Some(Box::new(move |m, _| m.set(&hh).unwrap().clear()));
                    ("set_clear", args, Want::True)
                } else {
                    ("set_clear", args, Want::Fail)
                }
            }
            Op::SToArray(h) => {
                let args = vec![hs!(h)];
                match m.set(h) {
                    Some(x) => {
                        let items: BTreeSet<String> = x.clone();
                        let l = label.clone();
                        // order unconstrained: the model adopts the real order after checking the multiset
                        effect = Some(Box::new(move |m, o| {
                            new_slot(m, o, Coll::Arr(items.into_iter().collect()), &l);
                        }));
                        ("set_to_array", args, Want::Handle)
                    }
                    None => {
                        effect = Some(Box::new(move |m, _| m.slots.push((format!("handle:failedcreate{:08}", m.slots.len()), None))));
                        ("set_to_array", args, Want::Fail)
                    }
                }
            }
            Op::SFromArray(h) => {
                let args = vec![hs!(h)];
                match m.arr(h) {
                    Some(a) => {
                        let items: BTreeSet<String> = a.iter().cloned().collect();
                        let l = label.clone();
                        effect = Some(Box::new(move |m, o| new_slot(m, o, Coll::Set(items), &l)));
                        ("set_from_array", args, Want::Handle)
                    }
                    None => {
                        effect = Some(Box::new(move |m, _| m.slots.push((format!("handle:failedcreate{:08}", m.slots.len()), None))));
                        ("set_from_array", args, Want::Fail)
                    }
                }
            }
            Op::SIsEmpty(h) => {
                let args = vec![hs!(h)];
                match m.set(h) {
                    Some(x) => ("set_is_empty", args, if x.is_empty() { Want::True } else { Want::False }),
                    None => ("set_is_empty", args, Want::Fail),
                }
            }
            Op::IsArray(h) => ("is_array", vec![hs!(h)], if m.arr(h).is_some() { Want::True } else { Want::False }),
            Op::IsMap(h) => ("is_map", vec![hs!(h)], if m.map(h).is_some() { Want::True } else { Want::False }),
            Op::IsSet(h) => ("is_set", vec![hs!(h)], if m.set(h).is_some() { Want::True } else { Want::False }),
            Op::Release(h, rec) => {
                let hstr = hs!(h);
                let live = m.by_string(&hstr).is_some();
                let mut args = vec![];
                if *rec {
                    args.push(s("-r"));
                }
                args.push(hstr.clone());
                let r = *rec;
                effect = Some(Box::new(move |m, _| {
                    m.release(&hstr, r);
                }));
                ("release", args, if live { Want::True } else { Want::False })
            }
            Op::ReleaseOddFlag(flag, h) => {
                sim::with_core(|c| c.probe("release-with-a-flag-look-alike"));
                ("release", vec![flag.clone(), hs!(h)], Want::False)
            }
        };
        // probes
        sim::with_core(|c| {
            if matches!(want, Want::Fail | Want::NoneOrFail) {
                *c.fired.entry("F10".to_string()).or_insert(0) += 1;
                c.probe("bad-handle-or-index");
            }
        });
        let shown: Vec<String> = args.iter().map(|a| match m.by_string(a) { Some(id) => format!("#h{}", id), None => a.clone() }).collect();
        // run: with a planned nested fault the wanted class is decided after the fact
        let planned = case.inject.iter().any(|(o, _)| *o == i);
        let got = if planned { world.run(cmd, &args) } else { world.op(cmd, &args, &want, &shown) };
        if planned && fault_fired() {
            sim::with_core(|c| {
                let seq = c.next_seq();
                c.log.push(sim::Event::Op { seq, op: cmd.to_string(), args: shown.clone(), got: got.show(), want: "fail (injected inner error)".to_string() });
                c.probe("inner-fault-in-script-command");
                if !got.is_fail() && !matches!(got, Out::Error(_)) {
                    c.violate("output-mismatch", format!("{}: an inner command failed, yet the command answered {}", label, got.show()));
                }
            });
            // no effect on any collection; a half-built result may stay behind
            m.allowance += 1;
            if let Some(e) = effect {
                // creations still take an id so that later references stay aligned
                let creates = matches!(op, Op::Concat(_) | Op::SFromArray(_) | Op::MKeys(_) | Op::SToArray(_) | Op::Array(_) | Op::Map | Op::SetNew(_) | Op::Range(_, _));
                drop(e);
                if creates {
                    m.slots.push((format!("handle:failedcreate{:08}", m.slots.len()), None));
                }
            }
        } else {
            if planned {
                // the planned nested index was never reached: judge normally
                let ok = want.matches(&got);
                sim::with_core(|c| {
                    let seq = c.next_seq();
                    c.log.push(sim::Event::Op { seq, op: cmd.to_string(), args: shown.clone(), got: got.show(), want: want.show() });
                    if !ok {
                        c.violate("output-mismatch", format!("{} {:?}: got {} / model wants {}", cmd, shown, got.show(), want.show()));
                    }
                });
            }
            if let Some(e) = effect {
                e(&mut m, &got);
            }
            // set_to_array / map_keys: order is unconstrained, adopt the real order (contents checked as a multiset)
            if matches!(op, Op::SToArray(_) | Op::MKeys(_)) {
                if let (Out::Val(h), Some(slot)) = (&got, m.slots.last_mut()) {
                    if slot.1.is_some() && slot.0 == *h {
                        pause_plan();
                        if let Ok(mut real) = read_array(&mut world, h) {
                            let real_order = real.clone();
                            real.sort();
                            if let Some(Coll::Arr(a)) = &slot.1 {
                                let mut want_sorted = a.clone();
                                want_sorted.sort();
                                if want_sorted == real {
                                    slot.1 = Some(Coll::Arr(real_order));
                                }
                            }
                        }
                    }
                }
            }
        }
        if sim::with_core(|c| c.violation.is_none()) {
            if let Some(d) = verify_all(&mut world, &m, &label) {
                sim::with_core(|c| c.violate("state-mismatch", d));
            }
        }
        if let Some((class, detail)) = sim::with_core(|c| c.violation.clone()) {
            return Verdict::Fail { class, detail };
        }
    }
    Verdict::Pass
}

// ------------------------------------------------------------------ generation

const LITS: [&str; 12] = ["a", "b", "x y", "", "h\u{e9}llo \u{6f22}", "0", "false", "true", "handle:zzzzzzzzzzzzzzzzzzzz", "-r", "c", "1"];
/// values with the characters a re-serialisation would have to quote; given verbatim (no parsing is involved in
/// an operation history), they must be stored and compared verbatim
const ODD_LITS: [&str; 13] = ["x#y", "#", "say \"hi there\"", "a\nb", "ab", "tab\there", "007", "+5", "-0", "1.50", "1e3", "0x10", " 7"];
const FAKES: [&str; 4] = ["handle:zzzzzzzzzzzzzzzzzzzz", "nohandle", "", "handle:"];
const IDX: [&str; 18] = ["0", "1", "2", "5", "-1", "abc", "", "1.0", "16", "17", "39", "-0", "+1", "00", " 1", "18446744073709551615", "9223372036854775808", "18446744073709551616"];

fn gen_v(rng: &mut Rng, n_slots: usize) -> V {
    if rng.chance(1, 60) {
        // longer than 64 bytes
        return V::Lit(format!("long-{}-{}", "abcdefghij".repeat(7), rng.below(10)));
    }
    if rng.chance(1, 12) {
        return V::Lit(rng.pick(&ODD_LITS).to_string());
    }
    if n_slots > 0 && rng.chance(1, 8) {
        V::HandleOf(rng.usize(n_slots))
    } else {
        V::Lit(rng.pick(&LITS).to_string())
    }
}

fn gen_h(rng: &mut Rng, n_slots: usize) -> H {
    if n_slots == 0 || rng.chance(1, 12) {
        H::Fake(rng.pick(&FAKES).to_string())
    } else if rng.chance(1, 14) {
        H::Near(rng.usize(n_slots), rng.below(6) as u8)
    } else {
        H::Id(rng.usize(n_slots))
    }
}

fn creates(op: &Op) -> bool {
    matches!(op, Op::Array(_) | Op::Map | Op::SetNew(_) | Op::Range(_, _) | Op::Concat(_) | Op::MKeys(_) | Op::SToArray(_) | Op::SFromArray(_))
}

fn gen_case(rng: &mut Rng) -> Case {
    let n = match rng.below(3) {
        0 => 2 + rng.usize(5),
        1 => 5 + rng.usize(12),
        _ => 12 + rng.usize(28),
    };
    let mut ops: Vec<Op> = vec![];
    let mut slots = 0usize;
    // statically known kind of every slot (0 array, 1 map, 2 set, 3 creation that may fail)
    let mut kinds: Vec<usize> = vec![];
    // swarm: which families this run favours
    let fam: [u32; 4] = [1 + rng.below(4) as u32, 1 + rng.below(4) as u32, 1 + rng.below(4) as u32, 1 + rng.below(2) as u32];
    for _ in 0..n {
        let op = if slots < 2 || (slots < 5 && rng.chance(1, 6)) {
            // one collection in twenty is larger than 16 elements
            let many = if rng.chance(1, 20) { 17 + rng.usize(24) } else { rng.usize(4) };
            match rng.below(4) {
                0 => Op::Array((0..many).map(|k| if many > 4 { V::Lit(format!("e{}", k % 23)) } else { gen_v(rng, slots) }).collect()),
                1 => Op::Map,
                2 => Op::SetNew((0..many).map(|k| if many > 4 { V::Lit(format!("e{}", k % 19)) } else { gen_v(rng, slots) }).collect()),
                _ => Op::Range(rng.pick(&["0", "2", "-2", "x", "5"]).to_string(), rng.pick(&["3", "0", "2", "y", "6", "40"]).to_string()),
            }
        } else {
            let h = gen_h(rng, slots);
            // mostly an operation of the handle's own kind; kind confusion in about one case of six
            let family = match &h {
                H::Id(i) if kinds[*i] < 3 && !rng.chance(1, 6) => {
                    if rng.chance(1, 8) { 3 } else { kinds[*i] }
                }
                _ => rng.weighted(&fam),
            };
            match family {
                0 => match rng.below(11) {
                    // (one push in ten carries 9-40 values: more than any plausible block size, and not a multiple of one)
                    0 | 1 => {
                        let n = if rng.chance(1, 10) { 9 + rng.usize(32) } else { 1 + rng.usize(2) };
                        Op::Push(h, (0..n).map(|_| gen_v(rng, slots)).collect())
                    }
                    2 => Op::Pop(h),
                    3 => Op::Get(h, rng.pick(&IDX).to_string()),
                    4 => Op::Set(h, rng.pick(&IDX).to_string(), gen_v(rng, slots)),
                    5 => Op::Remove(h, rng.pick(&IDX).to_string()),
                    6 => if rng.chance(1, 3) { Op::Clear(h) } else { Op::Length(h) },
                    7 => Op::IsEmpty(h),
                    8 => Op::Contains(h, gen_v(rng, slots)),
                    9 => Op::Join(h, rng.pick(&[",", "", ", ", "--", "\u{6f22}", "#", "\n", " ", "\t", "=x", "==", "\u{e9}", "a b", "\"", "\r\n"]).to_string()),
                    _ => {
                        let mut hv = vec![h];
                        for _ in 0..rng.usize(3) {
                            let arrays: Vec<usize> = (0..slots).filter(|i| kinds[*i] == 0).collect();
                            if !arrays.is_empty() && !rng.chance(1, 6) {
                                hv.push(H::Id(*rng.pick(&arrays)));
                            } else {
                                hv.push(gen_h(rng, slots));
                            }
                        }
                        Op::Concat(hv)
                    }
                },
                1 => match rng.below(10) {
                    0 | 1 | 2 => Op::MPut(h, gen_v(rng, slots), gen_v(rng, slots)),
                    3 => Op::MGet(h, gen_v(rng, slots)),
                    4 => Op::MRemove(h, gen_v(rng, slots)),
                    5 => if rng.chance(1, 3) { Op::MClear(h) } else { Op::MSize(h) },
                    6 => Op::MKeys(h),
                    7 => Op::MContainsKey(h, gen_v(rng, slots)),
                    8 => Op::MContainsValue(h, gen_v(rng, slots)),
                    _ => Op::MIsEmpty(h),
                },
                2 => match rng.below(9) {
                    0 | 1 => Op::SPut(h, (0..1 + rng.usize(2)).map(|_| gen_v(rng, slots)).collect()),
                    2 => Op::SRemove(h, gen_v(rng, slots)),
                    3 => Op::SContains(h, gen_v(rng, slots)),
                    4 => if rng.chance(1, 3) { Op::SClear(h) } else { Op::SSize(h) },
                    5 => Op::SToArray(h),
                    6 => Op::SFromArray(h),
                    _ => Op::SIsEmpty(h),
                },
                _ => match rng.below(6) {
                    0 => Op::IsArray(h),
                    1 => Op::IsMap(h),
                    2 => Op::IsSet(h),
                    _ if rng.chance(1, 12) => Op::ReleaseOddFlag(rng.pick(&["-R", "-first", "-rf", "--Recursive", "-x", "-", "--r"]).to_string(), h),
                    _ => Op::Release(h, rng.chance(1, 3)),
                },
            }
        };
        match &op {
            Op::Array(_) | Op::Range(_, _) | Op::Concat(_) | Op::MKeys(_) | Op::SToArray(_) => kinds.push(0),
            Op::Map => kinds.push(1),
            Op::SetNew(_) | Op::SFromArray(_) => kinds.push(2),
            _ => {}
        }
        if creates(&op) {
            slots += 1;
        }
        ops.push(op);
    }
    if rng.chance(1, 120) {
        // a chain nested deeper than 16: each collection holds the handle of the previous one; then the outermost is
        // released recursively and every link is probed
        let base = slots;
        let depth = 17 + rng.usize(10);
        let mut chain: Vec<Op> = vec![];
        for d in 0..depth {
            let inner: Vec<V> = if d == 0 { vec![V::Lit("leaf".to_string())] } else { vec![V::Lit("x".to_string()), V::HandleOf(base + d - 1)] };
            if rng.chance(1, 3) && d > 0 {
                chain.push(Op::Map);
                chain.push(Op::MPut(H::Id(base + d), V::Lit("next".to_string()), V::HandleOf(base + d - 1)));
            } else {
                chain.push(Op::Array(inner));
            }
        }
        chain.push(Op::Release(H::Id(base + depth - 1), true));
        for d in [0usize, 1, depth / 2, depth - 2] {
            chain.push(Op::IsArray(H::Id(base + d)));
            chain.push(Op::Release(H::Id(base + d), false));
        }
        ops.extend(chain);
    }
    let inject = if rng.chance(1, 3) {
        (0..1 + rng.usize(2)).map(|_| (rng.usize(ops.len()), rng.below(12) as u32)).collect()
    } else {
        vec![]
    };
    // (no inner-fault plan in that mode: the nesting depths differ)
    let separate_runs = rng.chance(1, 10);
    Case { entropy: rng.next_u64(), separate_runs, ops, inject: if separate_runs { vec![] } else { inject } }
}

pub struct C12;

impl Prop for C12 {
    fn id(&self) -> &'static str {
        "C12"
    }
    fn info(&self) -> PropInfo {
        PropInfo {
            level: "exploration",
            rule: "seeded histories of 2-40 collection operations (the statement's full command list) over the collections the history itself creates, addressed by live, released, never-existing, look-alike and wrong-kind handles; values incl. empty, multi-byte text, handle look-alikes and live handle strings; indexes inside/at/beyond the end and non-numeric; in a third of the runs an inner command of a script-implemented operation is made to fail (F1 nested). After EVERY step all live collections are re-read in full through public commands and compared with Vec/BTreeMap/BTreeSet per handle, and the handle table size is compared with the live count. Non-trivial = >= 3 operations; distinct = distinct abstract traces",
            real: &["SDK collections::*, release", "utils::state (handle table, mutate_list/map/set)", "AliasCommand + script.ds of array_contains/array_join/array_concat/array_is_empty/map_contains_*/map_is_empty/set_from_array/set_is_empty", "flow control used by those scripts"],
            stub: &["none (streams in memory)"],
            assumptions: &["thin fault space: sequential refinement; faults are dangling/wrong-kind handles, failing inner commands, hash order and random handle names", "values free of $ % \\ # quote CR LF: the re-serialisation classes announced under C09 are kept out of the stream", "order of map_keys / set_to_array unconstrained (multiset compared, then adopted)", "after an injected inner failure one half-built result collection may stay in the handle table"],
            needs_jail: false,
            needs_duck: false,
            expected_probes: &["bad-handle-or-index", "inner-fault-in-script-command"],
        }
    }
    fn runs(&self, tier: &str) -> u64 {
        if tier == "quick" { 20_000 } else { 1_000_000 }
    }
    fn generate(&self, rng: &mut Rng, _avoid: &[String]) -> Value {
        serde_json::to_value(gen_case(rng)).unwrap()
    }
    fn execute(&self, case: &Value, _env: &WorkerEnv) -> Outcome {
        let case: Case = match serde_json::from_value(case.clone()) {
            Ok(c) => c,
            Err(e) => return Outcome::collect(Verdict::Inconclusive { reason: format!("bad case: {}", e) }, false),
        };
        let res = std::panic::catch_unwind(std::panic::AssertUnwindSafe(|| run_case(&case)));
        PLAN.with(|p| *p.borrow_mut() = None);
        let verdict = match res {
            Ok(v) => v,
            Err(_) => {
                let p = sim::take_panic().unwrap_or_default();
                Verdict::Fail { class: format!("panic@{}", sim::panic_site(&p)), detail: p }
            }
        };
        Outcome::collect(verdict, false)
    }
    fn shrink(&self, case: &Value) -> Vec<Value> {
        let case: Case = match serde_json::from_value(case.clone()) {
            Ok(c) => c,
            Err(_) => return vec![],
        };
        let mut out: Vec<Case> = vec![];
        if !case.inject.is_empty() {
            let mut c = case.clone();
            c.inject.clear();
            out.push(c);
            for k in 0..case.inject.len() {
                let mut c = case.clone();
                c.inject.remove(k);
                out.push(c);
            }
        }
        // removing an operation that creates a collection would shift ids: replace it by nothing only when it creates none
        for i in (0..case.ops.len()).rev() {
            if !creates(&case.ops[i]) {
                let mut c = case.clone();
                c.ops.remove(i);
                c.inject = c.inject.iter().filter(|(o, _)| *o != i).map(|(o, k)| (if *o > i { o - 1 } else { *o }, *k)).collect();
                out.push(c);
            }
        }
        // truncate
        let n = case.ops.len();
        if n > 2 {
            let mut c = case.clone();
            c.ops.truncate(n - 1);
            c.inject.retain(|(o, _)| *o < n - 1);
            out.push(c);
            let mut c = case.clone();
            c.ops.truncate(n / 2);
            c.inject.retain(|(o, _)| *o < n / 2);
            out.push(c);
        }
        // simplify creations
        for i in 0..case.ops.len() {
            match &case.ops[i] {
                Op::Array(v) if !v.is_empty() => {
                    for k in 0..v.len() {
                        let mut vv = v.clone();
                        vv.remove(k);
                        let mut c = case.clone();
                        c.ops[i] = Op::Array(vv);
                        out.push(c);
                    }
                }
                Op::SetNew(v) if !v.is_empty() => {
                    let mut c = case.clone();
                    c.ops[i] = Op::SetNew(vec![]);
                    out.push(c);
                }
                _ => {}
            }
        }
        if case.entropy != 0 {
            let mut c = case.clone();
            c.entropy = 0;
            out.push(c);
        }
        out.into_iter().filter(|c| *c != case).map(|c| serde_json::to_value(c).unwrap()).collect()
    }
}
