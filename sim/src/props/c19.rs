//! C19 - script-implemented library commands leave no trace in the caller's variables.
//! Before/after frame around every invocation of such a command (at any depth), taken by the
//! decorator; inner commands are made to fail so that every line of the script is an error exit.

use crate::prop::{Outcome, Prop, PropInfo, Verdict, WorkerEnv};
use crate::props::gen::{self, ArrRef, Cond, FnDef, Program, Stmt};
use crate::rng::Rng;
use crate::sim::{self, Core, Observer, SimWriter, StartInfo};
use duckscript::runner;
use duckscript::types::command::CommandResult;
use duckscript::types::env::Env;
use duckscript::types::runtime::StateValue;
use serde::{Deserialize, Serialize};
use serde_json::Value;
use std::collections::{BTreeMap, BTreeSet, HashMap};

#[derive(Serialize, Deserialize, Clone, Debug, PartialEq)]
pub struct Case {
    pub entropy: u64,
    pub program: Program,
    /// (j, k): the k-th inner invocation of the j-th invocation of a script-implemented command fails
    pub nested: Vec<(u32, u32)>,
}

struct Frame {
    name: String,
    depth: u32,
    index: u32,
    args: Vec<String>,
    vars_before: BTreeMap<String, String>,
    arg_handle: Option<String>,
    prefix: Option<String>,
    inner: u32,
    injected: bool,
    handles_before: BTreeSet<String>,
}

struct FrameObs {
    stack: Vec<Frame>,
    count: u32,
    plan: Vec<(u32, u32)>,
}

fn handle_keys(state: &HashMap<String, StateValue>) -> BTreeSet<String> {
    match state.get("handles") {
        Some(StateValue::SubState(m)) => m.keys().cloned().collect(),
        _ => BTreeSet::new(),
    }
}

impl Observer for FrameObs {
    fn on_start(&mut self, core: &mut Core, info: &StartInfo, vars: &mut HashMap<String, String>, state: &mut HashMap<String, StateValue>, _e: &mut Env) -> Option<CommandResult> {
        let mut inject = false;
        if let Some(top) = self.stack.last_mut() {
            if info.depth == top.depth + 1 {
                // a direct inner invocation of the script command on top
                if top.prefix.is_none() {
                    for (k, v) in vars.iter() {
                        if !top.vars_before.contains_key(k) {
                            if let Some(p) = k.strip_suffix("::arguments") {
                                top.prefix = Some(p.to_string());
                                top.arg_handle = Some(v.clone());
                            } else if let Some(i) = k.find("::argument::") {
                                if top.prefix.is_none() {
                                    top.prefix = Some(k[..i].to_string());
                                }
                            }
                        }
                    }
                }
                let k = top.inner;
                top.inner += 1;
                // flow-control commands are never fault points: they cannot fail once their block has started
                let flow = info.name.starts_with("std::flowcontrol::") || info.name == "end";
                if !flow && self.plan.iter().any(|(jj, kk)| *jj == top.index && *kk == k) {
                    top.injected = true;
                    inject = true;
                    core.fire("F1", &format!("inner invocation {} ({}) of {} #{} fails", k, info.name, top.name, top.index));
                    core.probe(match k {
                        0 => "inner-fault-on-first-line",
                        _ => "inner-fault-on-later-line",
                    });
                }
            }
        }
        if !info.handler && gen::script_command_names().contains(&info.name) {
            if !self.stack.is_empty() {
                core.probe("script-command-inside-script-command");
            }
            self.stack.push(Frame {
                name: info.name.clone(),
                depth: info.depth,
                index: self.count,
                args: info.args.clone(),
                vars_before: vars.iter().map(|(a, b)| (a.clone(), b.clone())).collect(),
                arg_handle: None,
                prefix: None,
                inner: 0,
                injected: false,
                handles_before: handle_keys(state),
            });
            self.count += 1;
        }
        if inject {
            // the injected command does not run; if it is itself a script command its frame is popped at on_end as usual
            return Some(CommandResult::Error("inj-inner".to_string()));
        }
        None
    }
    fn on_end(&mut self, core: &mut Core, info: &StartInfo, result: &mut CommandResult, vars: &mut HashMap<String, String>, state: &mut HashMap<String, StateValue>, _e: &mut Env) {
        let is_top = self.stack.last().map(|f| f.depth == info.depth && f.name == info.name).unwrap_or(false);
        if !is_top || info.handler {
            return;
        }
        let f = self.stack.pop().unwrap();
        if core.budget_hit {
            return;
        }
        // the command was answered by an injection before it could start: nothing to frame
        if f.inner == 0 && matches!(result, CommandResult::Error(m) if m == "inj-inner") {
            return;
        }
        if f.args.len() < 1 {
            core.probe("invoked-without-arguments");
        }
        let mut expected = f.vars_before.clone();
        if f.name == "std::var::Unset" && !f.injected {
            for n in &f.args {
                expected.remove(n);
            }
        }
        let after: BTreeMap<String, String> = vars.iter().map(|(a, b)| (a.clone(), b.clone())).collect();
        let label = format!("{} #{} {:?} (depth {}, {})", f.name, f.index, f.args, f.depth, sim::result_kind(result));
        if f.name == "std::var::Unset" && f.injected {
            // a failed unset may have removed a prefix of the named variables, nothing else
            for (k, v) in f.vars_before.iter() {
                let own = own_prefixes().get(&f.name).map(|p| k.starts_with(&format!("{}::", p))).unwrap_or(false);
                if !f.args.contains(k) && after.get(k) != Some(v) {
                    core.violate(if own { "caller-variable-under-scope-prefix-lost" } else { "caller-variable-modified" }, format!("{}: variable {} was {:?}, is {:?}", label, k, v, after.get(k)));
                }
            }
            for k in after.keys() {
                if !f.vars_before.contains_key(k) {
                    core.violate("internal-variable-remains", format!("{}: variable {} = {:?} was left behind", label, k, after.get(k)));
                }
            }
        } else if after != expected {
            for (k, v) in after.iter() {
                if !expected.contains_key(k) {
                    core.violate("internal-variable-remains", format!("{}: variable {} = {:?} was left behind", label, k, v));
                    break;
                }
            }
            for (k, v) in expected.iter() {
                if after.get(k) != Some(v) {
                    // only a variable under THIS command's own prefix ("scope::<name>::") is the listed finding
                    let under_prefix = own_prefixes().get(&f.name).map(|p| k.starts_with(&format!("{}::", p))).unwrap_or(false);
                    core.violate(
                        if under_prefix { "caller-variable-under-scope-prefix-lost" } else { "caller-variable-modified" },
                        format!("{}: variable {} was {:?}, is {:?}", label, k, v, after.get(k)),
                    );
                    break;
                }
            }
        }
        if let Some(h) = &f.arg_handle {
            if handle_keys(state).contains(h) {
                core.violate("argument-array-not-released", format!("{}: the temporary argument array {} is still in the handle table", label, h));
            }
        }
        // internal temporaries other than the argument array are outside the statement: reported as a probe only
        let now = handle_keys(state);
        let result_handle = match result {
            CommandResult::Continue(Some(v)) if v.starts_with("handle:") => Some(v.clone()),
            _ => None,
        };
        let grown: Vec<&String> = now.iter().filter(|h| !f.handles_before.contains(*h) && Some((*h).clone()) != result_handle).collect();
        if !grown.is_empty() {
            core.probe(if f.injected { "internal-collection-left-after-inner-fault" } else { "internal-collection-left-behind" });
        }
        if matches!(result, CommandResult::Error(_)) {
            core.probe("script-command-reported-error");
        }
    }
}

// ------------------------------------------------------------------ workload

fn q(v: &str) -> String {
    // render one argument with the documented syntax
    let needs = v.is_empty() || v.contains(' ') || v.contains('#') || v.contains('"');
    let mut body = String::new();
    for c in v.chars() {
        match c {
            '"' => body.push_str("\\\""),
            _ => body.push(c),
        }
    }
    if needs { format!("\"{}\"", body) } else { body }
}

const VALS: [&str; 12] = ["a", "c d", "", "x#y", "q\"t", "\\${v0}", "handle:zzzzzzzzzzzzzzzzzzzz", "-e", "b", "h\u{e9}", "${eq1}", "${eq0}"];
// (eq0 / eq1 / eq2 hold `=`, `=pwd`, `=v1`: a value that reads like the start of an assignment)
const HANDLES: [&str; 9] = ["${arr}", "${arr2}", "${mp}", "${st}", "nohandle", "${undefinedvar}", "${eq0}", "${eq1}", "${eq2}"];
const VARNAMES: [&str; 17] = [
    "v0", "v1", "v2", "nope", "scope::unset::name", "scope::array_contains::index", "scope::join_path::output", "scope::concat::output", "v3",
    // names that merely EXTEND a command's scope name (no separator): these are ordinary caller variables
    "scope::join_path_all::root", "scope::unsetx::name", "scope::concatenate::output", "scope::array_contains2::index", "scope::glob_cpx::target",
    // caller variables named like commands the scripts use
    "is_array", "map_is_empty", "equals",
];

/// scope prefix ("scope::<name>") of every script-implemented command, read off the script source in its help
fn own_prefixes() -> &'static BTreeMap<String, String> {
    static P: std::sync::OnceLock<BTreeMap<String, String>> = std::sync::OnceLock::new();
    P.get_or_init(|| {
        let c = gen::sdk_commands();
        let mut m = BTreeMap::new();
        for name in gen::script_command_names() {
            if let Some(cmd) = c.get(name) {
                let help = cmd.help();
                if let Some(i) = help.find("scope::") {
                    let rest = &help[i + 7..];
                    if let Some(j) = rest.find("::") {
                        m.insert(name.clone(), format!("scope::{}", &rest[..j]));
                    }
                }
            }
        }
        m
    })
}

fn under_some_own_prefix(name: &str) -> bool {
    own_prefixes().values().any(|p| name.starts_with(&format!("{}::", p)))
}

fn val(rng: &mut Rng) -> String {
    q(*rng.pick(&VALS))
}

fn hnd(rng: &mut Rng) -> String {
    rng.pick(&HANDLES).to_string()
}

fn invocation(rng: &mut Rng, avoid_own_names: bool) -> String {
    let n_args_mode = rng.below(10); // 0: too few, else normal
    let short = n_args_mode == 0;
    let line = match rng.below(21) {
        20 => {
            // ten or more arguments: argument::1 and argument::10 share a prefix; sometimes more than 16
            let n = if rng.chance(1, 3) { 17 + rng.usize(8) } else { 10 + rng.usize(3) };
            let cmd = *rng.pick(&["concat", "unset", "join_path", "array_concat"]);
            let args: Vec<String> = (0..n)
                .map(|_| match cmd {
                    "unset" => rng.pick(&VARNAMES).to_string(),
                    "array_concat" => hnd(rng),
                    _ => val(rng),
                })
                .collect();
            format!("{} {}", cmd, args.join(" "))
        }
        0 | 1 => {
            let n = if short { 0 } else { 1 + rng.usize(3) };
            // (naming the command's own bookkeeping variables as arguments is part of the listed finding D12: the
            // script reads and deletes them as its own; generated only when that finding is not listed)
            format!("unset {}", (0..n).map(|_| if !avoid_own_names && rng.chance(1, 8) { rng.pick(&["scope::unset::arguments", "scope::unset::argument::1", "scope::unset::name"]).to_string() } else {
                let mut n = rng.pick(&VARNAMES).to_string();
                if avoid_own_names && n.starts_with("scope::unset::") {
                    n = "v2".to_string();
                }
                n
            }).collect::<Vec<_>>().join(" "))
        }
        2 => {
            let n = if short { 0 } else { 1 + rng.usize(3) };
            format!("join_path {}", (0..n).map(|_| q(*rng.pick(&["a", "b/", "/c", "d e", "", "x//y"]))).collect::<Vec<_>>().join(" "))
        }
        3 => {
            let n = if short { 0 } else { 1 + rng.usize(3) };
            format!("concat {}", (0..n).map(|_| val(rng)).collect::<Vec<_>>().join(" "))
        }
        4 | 5 => if short { format!("array_contains {}", hnd(rng)) } else { format!("array_contains {} {}", hnd(rng), val(rng)) },
        6 | 7 => if short { format!("array_join {}", hnd(rng)) } else { format!("array_join {} {}", hnd(rng), q(*rng.pick(&[",", "", ", ", "--"]))) },
        8 => {
            let n = if short { 0 } else { 1 + rng.usize(3) };
            format!("array_concat {}", (0..n).map(|_| hnd(rng)).collect::<Vec<_>>().join(" "))
        }
        9 => if short { "array_is_empty".to_string() } else { format!("array_is_empty {}", hnd(rng)) },
        10 => if short { "set_from_array".to_string() } else { format!("set_from_array {}", hnd(rng)) },
        11 => if short { "set_is_empty".to_string() } else { format!("set_is_empty {}", hnd(rng)) },
        12 => if short { format!("map_contains_key {}", hnd(rng)) } else { format!("map_contains_key {} {}", hnd(rng), q(*rng.pick(&["k", "k2", "", "c d"]))) },
        13 | 14 => if short { format!("map_contains_value {}", hnd(rng)) } else { format!("map_contains_value {} {}", hnd(rng), q(*rng.pick(&["v", "w", "", "c d"]))) },
        15 => if short { "map_is_empty".to_string() } else { format!("map_is_empty {}", hnd(rng)) },
        16 => match rng.below(5) {
            0 => "base64".to_string(),
            4 => format!("base64 {} {}", val(rng), val(rng)),
            1 => format!("base64 -e {}", val(rng)),
            2 => format!("base64 -d {}", q(*rng.pick(&["aGVsbG8=", "!!!", ""]))),
            _ => format!("base64 {}", val(rng)),
        },
        17 => match rng.below(3) {
            0 => "is_windows".to_string(),
            1 => "uname".to_string(),
            _ => "uname -a".to_string(),
        },
        18 => match rng.below(4) {
            0 => "cp_glob run/c19/*.txt run/c19/out".to_string(),
            1 => "cp_glob run/c19/f1.txt run/c19/out2".to_string(),
            2 => "cp_glob run/c19/none* run/c19/out3".to_string(),
            _ => "cp_glob run/c19/*.txt".to_string(),
        },
        _ => match rng.below(4) {
            0 => "sha256sum run/c19/f1.txt".to_string(),
            1 => "sha512sum run/c19/f1.txt".to_string(),
            2 => "sha256sum run/c19/missing.txt".to_string(),
            _ => "sha512sum".to_string(),
        },
    };
    if rng.chance(1, 2) {
        format!("o{} = {}", rng.below(3), line.trim_end())
    } else {
        line.trim_end().to_string()
    }
}

fn burst(rng: &mut Rng, avoid_own_names: bool) -> Vec<Stmt> {
    let m = if rng.chance(1, 4) { 5 } else { 2 };
    let n = 1 + rng.usize(m);
    // many times in a row: sometimes the very same line
    let same = rng.chance(1, 3);
    let first = invocation(rng, avoid_own_names);
    (0..n).map(|i| Stmt::Raw(if same || i == 0 { first.clone() } else { invocation(rng, avoid_own_names) })).collect()
}

fn gen_case(rng: &mut Rng, avoid_scope_names: bool) -> Case {
    let mut main: Vec<Stmt> = vec![];
    // caller context: 10-20 variables, some named like the commands' internals
    // one run in twenty-five: a caller with more than 64 variables
    let n_vars = if rng.chance(1, 25) { 65 + rng.usize(20) } else { 10 + rng.usize(11) };
    for i in 0..n_vars {
        let mut name = if i < 4 {
            format!("v{}", i)
        } else if rng.chance(1, 4) {
            rng.pick(&VARNAMES).to_string()
        } else if rng.chance(1, 5) {
            // a multi-byte character at some byte offset between 2 and 34 (code that slices names at a fixed offset)
            format!("w{}{}\u{e9}{}", i % 10, "_".repeat(rng.usize(32)), "t".repeat(rng.usize(4)))
        } else {
            format!("w{}", i)
        };
        if avoid_scope_names && under_some_own_prefix(&name) {
            // known finding: a caller variable under a command's own scope prefix is wiped by that command
            name = format!("w{}", i);
        }
        main.push(Stmt::Raw(format!("{} = set {}", name, q(*rng.pick(&["a", "keep me", "1", "x#y", "zz"])))));
    }
    main.push(Stmt::Raw("arr = array a b \"c d\" b".to_string()));
    main.push(Stmt::Raw("arr2 = array".to_string()));
    main.push(Stmt::Raw("mp = map".to_string()));
    main.push(Stmt::Raw("map_put ${mp} k v".to_string()));
    main.push(Stmt::Raw("map_put ${mp} k2 \"c d\"".to_string()));
    main.push(Stmt::Raw("st = set_new x y".to_string()));
    main.push(Stmt::Raw("eq0 = set \"=\"".to_string()));
    main.push(Stmt::Raw("eq1 = set \"=pwd\"".to_string()));
    main.push(Stmt::Raw("eq2 = set \"=v1\"".to_string()));
    main.push(Stmt::Raw("writefile run/c19/f1.txt hello".to_string()));
    main.push(Stmt::Raw("writefile run/c19/f2.txt world".to_string()));
    let use_fn = rng.chance(1, 2);
    let mut n_cnd = 0;
    let n_blocks = 1 + rng.usize(5);
    for b in 0..n_blocks {
        match rng.below(7) {
            6 => {
                // between a scope push and its pop (the command's clean-up must not depend on the scope stack)
                main.push(Stmt::Raw(format!("scope_push_stack{}", if rng.chance(2, 3) { " --copy arr arr2 mp st v0 v1 eq0 eq1 eq2" } else { "" })));
                main.extend(burst(rng, avoid_scope_names));
                main.push(Stmt::Raw("scope_pop_stack".to_string()));
            }
            0 | 1 | 2 => main.extend(burst(rng, avoid_scope_names)),
            3 => main.push(Stmt::ForIn { var: "i0".to_string(), arr: ArrRef::Inline(vec!["1".to_string(), "2".to_string()]), body: burst(rng, avoid_scope_names), sp: rng.next_u64() as u32, id: b as u32 }),
            4 => {
                main.push(Stmt::While { cond: Cond::Cnd { site: n_cnd, negate: false }, body: burst(rng, avoid_scope_names), sp: rng.next_u64() as u32 });
                n_cnd += 1;
            }
            _ => {
                if use_fn {
                    main.push(Stmt::Call { out: None, f: "f0".to_string(), args: vec!["a".to_string()], show: false });
                } else {
                    main.push(Stmt::If { branches: vec![(Cond::Val("true".to_string()), burst(rng, avoid_scope_names))], els: None, sp: rng.next_u64() as u32 });
                }
            }
        }
    }
    // (a scoped function: the body runs on a pushed scope)
    let fns = if use_fn { vec![FnDef { name: "f0".to_string(), scoped: rng.chance(1, 2), body: burst(rng, avoid_scope_names), sp: rng.next_u64() as u32 }] } else { vec![] };
    let cnd = (0..n_cnd).map(|_| (0..1 + rng.usize(2)).map(|_| true).collect()).collect();
    let nested = if rng.chance(2, 3) { (0..1 + rng.usize(3)).map(|_| (rng.below(8) as u32, rng.below(14) as u32)).collect() } else { vec![] };
    Case { entropy: rng.next_u64(), program: Program { fns, arrays: vec![], main, cnd, fail_leaf: vec![], forever: false, crlf: false }, nested }
}

fn run_case(case: &Case, env: &WorkerEnv) -> Verdict {
    if !env.chrooted {
        let _ = std::env::set_current_dir(&env.jail_root);
    }
    let _ = std::fs::remove_dir_all("run");
    let _ = std::fs::create_dir_all("run/c19");
    let text = gen::render(&case.program);
    sim::reset(Some(Box::new(FrameObs { stack: vec![], count: 0, plan: case.nested.clone() })));
    sim::with_core(|c| {
        for n in ["std::env::UName", "std::env::GetOSName", "std::env::GetOSRelease", "std::env::GetOSVersion", "std::env::GetOSFamily"] {
            c.redact.insert(n.to_string());
        }
    });
    let mut context = gen::sdk_context();
    gen::add_harness(&mut context.commands);
    sim::decorate(&mut context.commands);
    gen::install_world(&case.program, None);
    sim::with_core(|c| c.pre_hook = None);
    let renv = Env::new(Some(Box::new(SimWriter::new("out", vec![]))), Some(Box::new(SimWriter::new("err", vec![]))), None);
    let result = runner::run_script(&text, context, Some(renv));
    let _ = std::fs::remove_dir_all("run");
    let budget_hit = sim::with_core(|c| c.budget_hit);
    if budget_hit {
        return Verdict::Inconclusive { reason: "step budget (C07's matter)".to_string() };
    }
    if let Some((class, detail)) = sim::with_core(|c| c.violation.clone()) {
        return Verdict::Fail { class, detail };
    }
    match result {
        Ok(_) => Verdict::Pass,
        Err(e) => {
            let msg = e.to_string();
            if msg.contains("Memory leak detected") {
                Verdict::Fail { class: "leak-detector-crash".to_string(), detail: msg }
            } else {
                Verdict::Fail { class: "run-failed".to_string(), detail: msg }
            }
        }
    }
}

pub struct C19;

impl Prop for C19 {
    fn id(&self) -> &'static str {
        "C19"
    }
    fn info(&self) -> PropInfo {
        PropInfo {
            level: "exploration",
            rule: "seeded scripts: a caller context of 10-20 variables (some named like the commands' internals, scope::<cmd>::...), an array, an empty array, a map, a set and two files in the jail; then 1-5 blocks of 1-5 invocations in a row of the script-implemented commands (discovered from the registry: unset, join_path, concat, array_contains/join/concat/is_empty, set_from_array, set_is_empty, map_contains_key/value, map_is_empty, base64, is_windows, uname, cp_glob, sha256sum, sha512sum) with valid / too few / wrong-kind / special-character arguments, at top level, in for and while bodies, in a function and inside each other (cp_glob uses join_path and array_is_empty); in two runs of three 1-3 inner invocations are made to fail (nested F1), so that every line of each script is an error exit. Oracle: before/after frame around every invocation at any depth: variables after = variables before (minus what unset documents), no internal variable remains, the temporary argument array is gone. Non-trivial = >= 3 steps and (in fault runs) an inner fault fired; distinct = distinct abstract traces",
            real: &["AliasCommand::run (types/command.rs)", "types::scope::clear", "every script.ds of the SDK reachable without S8", "utils::eval::eval_instructions", "flow control inside the scripts", "fs commands on the jail's tmpfs (cp_glob, sha sums)"],
            stub: &["cnd harness command", "streams"],
            assumptions: &["internal temporary collections other than the argument array are outside the statement (counted as a probe, not a violation)", "runs cut by the step budget are inconclusive here (C07's matter)", "CR/LF in values are kept out (join_path does not terminate on them: C07)"],
            needs_jail: true,
            needs_duck: false,
            expected_probes: &["inner-fault-on-first-line", "inner-fault-on-later-line", "script-command-inside-script-command", "invoked-without-arguments", "script-command-reported-error"],
        }
    }
    fn runs(&self, tier: &str) -> u64 {
        if tier == "quick" { 25_000 } else { 1_500_000 }
    }
    fn generate(&self, rng: &mut Rng, avoid: &[String]) -> Value {
        serde_json::to_value(gen_case(rng, avoid.iter().any(|a| a == "caller_variable_named_scope"))).unwrap()
    }
    fn execute(&self, case: &Value, env: &WorkerEnv) -> Outcome {
        let case: Case = match serde_json::from_value(case.clone()) {
            Ok(c) => c,
            Err(e) => return Outcome::collect(Verdict::Inconclusive { reason: format!("bad case: {}", e) }, false),
        };
        let res = std::panic::catch_unwind(std::panic::AssertUnwindSafe(|| run_case(&case, env)));
        let _ = sim::take_observer();
        let verdict = match res {
            Ok(v) => v,
            Err(_) => {
                let p = sim::take_panic().unwrap_or_default();
                Verdict::Fail { class: format!("panic@{}", sim::panic_site(&p)), detail: p }
            }
        };
        Outcome::collect(verdict, !case.nested.is_empty())
    }
    fn warm_up(&self) {
        let _ = own_prefixes();
    }
    fn known_match(&self, matcher: &str, case: &Value, class: &str, _detail: &str) -> bool {
        let _ = own_prefixes();
        let case: Case = match serde_json::from_value(case.clone()) {
            Ok(c) => c,
            Err(_) => return false,
        };
        match matcher {
            // the caller context defines a variable under some command's scope prefix AND that is what was lost
            "caller_variable_named_scope" => {
                fn names_own(stmts: &[Stmt]) -> bool {
                    stmts.iter().any(|s| match s {
                        Stmt::Raw(l) => l.contains("unset ") && l.contains("scope::unset::"),
                        Stmt::If { branches, els, .. } => branches.iter().any(|(_, b)| names_own(b)) || els.as_ref().map(|e| names_own(e)).unwrap_or(false),
                        Stmt::While { body, .. } | Stmt::ForIn { body, .. } => names_own(body),
                        _ => false,
                    })
                }
                if names_own(&case.program.main) || case.program.fns.iter().any(|f| names_own(&f.body)) {
                    return true;
                }
                class == "caller-variable-under-scope-prefix-lost"
                    && case.program.main.iter().any(|s| matches!(s, Stmt::Raw(l) if l.starts_with("scope::") && under_some_own_prefix(l.split(' ').next().unwrap_or(""))))
            }
            _ => false,
        }
    }
    fn shrink(&self, case: &Value) -> Vec<Value> {
        let case: Case = match serde_json::from_value(case.clone()) {
            Ok(c) => c,
            Err(_) => return vec![],
        };
        let mut out: Vec<Case> = vec![];
        if !case.nested.is_empty() {
            let mut c = case.clone();
            c.nested.clear();
            out.push(c);
            for k in 0..case.nested.len() {
                let mut c = case.clone();
                c.nested.remove(k);
                out.push(c);
            }
        }
        for p in gen::shrink_program(&case.program) {
            let mut c = case.clone();
            c.program = p;
            out.push(c);
        }
        if case.entropy != 0 {
            let mut c = case.clone();
            c.entropy = 0;
            out.push(c);
        }
        out.into_iter().filter(|c| *c != case).map(|c| serde_json::to_value(c).unwrap()).collect()
    }
}
