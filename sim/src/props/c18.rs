//! C18 - file commands vs a simple file tree (Appendix D.6). Real syscalls on a private tree
//! inside the worker's jail; the tree is walked and compared in full after every step.

use crate::prop::{Outcome, Prop, PropInfo, Verdict, WorkerEnv};
use crate::props::ops::{s, OpWorld, Out, Want};
use crate::rng::Rng;
use crate::sim;
use duckscript::types::runtime::StateValue;
use serde::{Deserialize, Serialize};
use serde_json::Value;
use std::collections::{BTreeMap, BTreeSet};
use std::path::Path;

#[derive(Serialize, Deserialize, Clone, Debug, PartialEq)]
pub enum Op {
    Write(String, String),
    Append(String, String),
    Read(String),
    WriteBin(String, String),
    ReadBin(String),
    /// the SAME byte handle written to two paths, one after the other (the first write may fail)
    WriteBin2(String, String, String),
    Touch(String),
    Mkdir(String),
    Cp(String, String),
    Mv(String, String),
    Rm(String, bool),
    /// `rm [-r] p1 p2 ...`: every named path goes, in order
    RmMany(Vec<String>, bool),
    Rmdir(String),
    Exists(String),
    IsFile(String),
    IsDir(String),
    Size(String),
    Glob(String),
    Basename(String),
    Dirname(String),
    JoinPath(Vec<String>),
    /// plant a file whose content is not valid UTF-8 (done by the harness, then read through the commands)
    PlantBytes(String, Vec<u8>),
}

#[derive(Serialize, Deserialize, Clone, Debug, PartialEq)]
pub struct Case {
    pub entropy: u64,
    pub ops: Vec<Op>,
    /// F14: (operation index, RLIMIT_FSIZE in bytes) - the write of that operation is cut short by the kernel
    pub torn: Option<(usize, u64)>,
}

#[derive(Clone, Debug, PartialEq)]
enum Node {
    File(Vec<u8>),
    Dir,
}

type Tree = BTreeMap<String, Node>;

const ROOT: &str = "run";

fn parent(p: &str) -> Option<String> {
    p.rfind('/').map(|i| p[..i].to_string())
}

fn base(p: &str) -> String {
    match p.rfind('/') {
        Some(i) => p[i + 1..].to_string(),
        None => p.to_string(),
    }
}

fn ancestors(p: &str) -> Vec<String> {
    let mut v = vec![];
    let mut cur = p.to_string();
    while let Some(pp) = parent(&cur) {
        v.push(pp.clone());
        cur = pp;
    }
    v
}

/// a component longer than the file system accepts (ENAMETOOLONG)
fn too_long(p: &str) -> bool {
    p.split('/').any(|c| c.len() > 255)
}

/// some proper ancestor is a file, or the name cannot exist at all
fn blocked(t: &Tree, p: &str) -> bool {
    too_long(p) || ancestors(p).iter().any(|a| matches!(t.get(a), Some(Node::File(_))))
}

fn ensure_parents(t: &mut Tree, p: &str) {
    for a in ancestors(p) {
        t.entry(a).or_insert(Node::Dir);
    }
}

fn has_children(t: &Tree, p: &str) -> bool {
    let pre = format!("{}/", p);
    t.keys().any(|k| k.starts_with(&pre))
}

fn remove_subtree(t: &mut Tree, p: &str) {
    let pre = format!("{}/", p);
    t.retain(|k, _| k != p && !k.starts_with(&pre));
}

fn has_extension(p: &str) -> bool {
    Path::new(p).extension().is_some()
}

fn walk(dir: &Path, rel: &str, out: &mut Tree) {
    out.insert(rel.to_string(), Node::Dir);
    if let Ok(rd) = std::fs::read_dir(dir) {
        let mut entries: Vec<_> = rd.flatten().collect();
        entries.sort_by_key(|e| e.file_name());
        for e in entries {
            let name = e.file_name().to_string_lossy().to_string();
            let child_rel = format!("{}/{}", rel, name);
            let path = e.path();
            let md = match std::fs::symlink_metadata(&path) {
                Ok(m) => m,
                Err(_) => continue,
            };
            if md.is_dir() {
                walk(&path, &child_rel, out);
            } else {
                out.insert(child_rel, Node::File(std::fs::read(&path).unwrap_or_default()));
            }
        }
    }
}

fn real_tree() -> Tree {
    let mut t = Tree::new();
    walk(Path::new(ROOT), ROOT, &mut t);
    t
}

fn diff(real: &Tree, model: &Tree, skip: &BTreeSet<String>) -> Option<String> {
    for (k, v) in real {
        if skip.contains(k) {
            continue;
        }
        match model.get(k) {
            None => return Some(format!("{} exists on disk ({}), not in the model", k, kind(v))),
            Some(m) if m != v => return Some(format!("{} on disk is {}, model {}", k, show(v), show(m))),
            _ => {}
        }
    }
    for (k, m) in model {
        if !skip.contains(k) && !real.contains_key(k) {
            return Some(format!("{} is missing on disk, model has {}", k, show(m)));
        }
    }
    None
}

fn kind(n: &Node) -> &'static str {
    match n {
        Node::File(_) => "file",
        Node::Dir => "dir",
    }
}

fn show(n: &Node) -> String {
    match n {
        Node::File(b) => format!("file {:?}", String::from_utf8_lossy(&b[..b.len().min(40)])),
        Node::Dir => "dir".to_string(),
    }
}

fn glob_model(t: &Tree, pat: &str) -> Option<BTreeSet<String>> {
    // supported shapes: "<dir>/*" and "<dir>/**/*.<ext>"
    if let Some(dir) = pat.strip_suffix("/*") {
        if dir.contains('*') {
            return None;
        }
        let pre = format!("{}/", dir);
        return Some(t.keys().filter(|k| k.starts_with(&pre) && !k[pre.len()..].contains('/')).cloned().collect());
    }
    if let Some(i) = pat.find("/**/*.") {
        let dir = &pat[..i];
        let ext = &pat[i + 6..];
        if dir.contains('*') || ext.contains('*') {
            return None;
        }
        let pre = format!("{}/", dir);
        let suffix = format!(".{}", ext);
        return Some(t.keys().filter(|k| k.starts_with(&pre) && base(k).ends_with(&suffix) && base(k).len() > suffix.len()).cloned().collect());
    }
    None
}

/// lexical resolution of `.`, empty components and `dir/..` against the model tree; None when a component that
/// is stepped out of with `..` is not an existing directory (what happens then is not settled: the commands
/// create parents before they look)
fn resolve(t: &Tree, p: &str) -> Option<String> {
    let mut parts: Vec<&str> = vec![];
    for c in p.split('/') {
        match c {
            "" | "." => {
                // (`file/.` and `file/` do not name the file)
                if matches!(t.get(&parts.join("/")), Some(Node::File(_))) {
                    return None;
                }
            }
            ".." => {
                let cur = parts.join("/");
                if !matches!(t.get(&cur), Some(Node::Dir)) || parts.len() <= 1 {
                    return None;
                }
                parts.pop();
            }
            x => parts.push(x),
        }
    }
    Some(parts.join("/"))
}

/// the spelling ends with a `.` or `..` component: it names a directory through itself or through a child
fn ends_in_dots(p: &str) -> bool {
    let last = p.trim_end_matches('/').rsplit('/').next().unwrap_or("");
    last == "." || last == ".."
}

/// like `resolve`, for the TARGET of cp / mv: a `..` may also step back out of a directory that does not exist yet
/// (the command creates missing parent directories of the target before it looks at the target itself); returns the
/// canonical path and the directories that this would create
fn resolve_creating(t: &Tree, p: &str) -> Option<(String, Vec<String>)> {
    let mut parts: Vec<&str> = vec![];
    let mut created: Vec<String> = vec![];
    for c in p.split('/') {
        match c {
            "" | "." => {}
            ".." => {
                let cur = parts.join("/");
                if parts.len() <= 1 {
                    return None;
                }
                match t.get(&cur) {
                    Some(Node::Dir) => {}
                    Some(Node::File(_)) => return None,
                    None => {
                        if blocked(t, &cur) {
                            return None;
                        }
                        let mut a = cur.clone();
                        while !t.contains_key(&a) && !created.contains(&a) {
                            created.push(a.clone());
                            match parent(&a) {
                                Some(pp) => a = pp,
                                None => break,
                            }
                        }
                    }
                }
                parts.pop();
            }
            x => parts.push(x),
        }
    }
    Some((parts.join("/"), created))
}

fn paths_of(op: &Op) -> Vec<String> {
    match op {
        Op::Write(p, _) | Op::Append(p, _) | Op::Read(p) | Op::Touch(p) | Op::Rm(p, _) | Op::Exists(p) | Op::IsFile(p) | Op::IsDir(p) | Op::Size(p) | Op::Mkdir(p) | Op::Rmdir(p) | Op::ReadBin(p) | Op::WriteBin(p, _) => vec![p.clone()],
        Op::Cp(a, b) | Op::Mv(a, b) | Op::WriteBin2(a, b, _) => vec![a.clone(), b.clone()],
        Op::RmMany(ps, _) => ps.clone(),
        _ => vec![],
    }
}

fn with_paths(op: &Op, ps: &[String]) -> Op {
    match op {
        Op::Write(_, x) => Op::Write(ps[0].clone(), x.clone()),
        Op::Append(_, x) => Op::Append(ps[0].clone(), x.clone()),
        Op::Read(_) => Op::Read(ps[0].clone()),
        Op::Touch(_) => Op::Touch(ps[0].clone()),
        Op::Rm(_, r) => Op::Rm(ps[0].clone(), *r),
        Op::Exists(_) => Op::Exists(ps[0].clone()),
        Op::IsFile(_) => Op::IsFile(ps[0].clone()),
        Op::IsDir(_) => Op::IsDir(ps[0].clone()),
        Op::Size(_) => Op::Size(ps[0].clone()),
        Op::Mkdir(_) => Op::Mkdir(ps[0].clone()),
        Op::Rmdir(_) => Op::Rmdir(ps[0].clone()),
        Op::ReadBin(_) => Op::ReadBin(ps[0].clone()),
        Op::WriteBin(_, x) => Op::WriteBin(ps[0].clone(), x.clone()),
        Op::Cp(_, _) => Op::Cp(ps[0].clone(), ps[1].clone()),
        Op::Mv(_, _) => Op::Mv(ps[0].clone(), ps[1].clone()),
        Op::WriteBin2(_, _, x) => Op::WriteBin2(ps[0].clone(), ps[1].clone(), x.clone()),
        Op::RmMany(_, r) => Op::RmMany(ps.to_vec(), *r),
        other => other.clone(),
    }
}

fn command_of(op: &Op) -> (&'static str, Vec<String>) {
    match op {
        Op::Write(p, x) => ("writefile", vec![p.clone(), x.clone()]),
        Op::Append(p, x) => ("appendfile", vec![p.clone(), x.clone()]),
        Op::Read(p) => ("readfile", vec![p.clone()]),
        Op::Touch(p) => ("touch", vec![p.clone()]),
        Op::Rm(p, r) => ("rm", if *r { vec![s("-r"), p.clone()] } else { vec![p.clone()] }),
        Op::Exists(p) => ("is_path_exists", vec![p.clone()]),
        Op::IsFile(p) => ("is_file", vec![p.clone()]),
        Op::IsDir(p) => ("is_dir", vec![p.clone()]),
        Op::Size(p) => ("get_file_size", vec![p.clone()]),
        Op::Mkdir(p) => ("mkdir", vec![p.clone()]),
        Op::Rmdir(p) => ("rmdir", vec![p.clone()]),
        Op::ReadBin(p) => ("read_binary_file", vec![p.clone()]),
        Op::Cp(a, b) => ("cp", vec![a.clone(), b.clone()]),
        Op::Mv(a, b) => ("mv", vec![a.clone(), b.clone()]),
        Op::RmMany(ps, r) => ("rm", if *r { std::iter::once(s("-r")).chain(ps.iter().cloned()).collect() } else { ps.clone() }),
        _ => ("noop", vec![]),
    }
}

fn set_fsize_limit(limit: Option<u64>) {
    unsafe {
        let v = match limit {
            Some(l) => l as libc::rlim_t,
            None => libc::RLIM_INFINITY,
        };
        let r = libc::rlimit { rlim_cur: v, rlim_max: libc::RLIM_INFINITY };
        libc::setrlimit(libc::RLIMIT_FSIZE, &r);
    }
}

fn run_case(case: &Case) -> Verdict {
    let _ = std::fs::remove_dir_all(ROOT);
    if Path::new(ROOT).exists() {
        // could not be removed (e.g. over-long paths): move it out of the way so that this run starts clean
        for n in 0..1000 {
            if std::fs::rename(ROOT, format!(".trash{}", n)).is_ok() {
                break;
            }
        }
    }
    if std::fs::create_dir_all(ROOT).is_err() {
        return Verdict::Inconclusive { reason: "cannot create the run directory".to_string() };
    }
    unsafe {
        libc::signal(libc::SIGXFSZ, libc::SIG_IGN);
    }
    let mut world = OpWorld::new_sdk();
    let mut t: Tree = Tree::new();
    t.insert(ROOT.to_string(), Node::Dir);
    for (i, op) in case.ops.iter().enumerate() {
        let label = format!("op #{} {:?}", i, op);
        // path aliases: the model works on the canonical path, the command receives the spelling
        let spelled = paths_of(op);
        let mut canonical: Vec<String> = vec![];
        let mut unresolved = false;
        // directories that the spelling of a cp / mv target makes the command create on its way (`newdir/../f.txt`)
        let mut created_on_the_way: Vec<String> = vec![];
        for (j, p) in spelled.iter().enumerate() {
            match resolve(&t, p) {
                Some(c) => canonical.push(c),
                None => {
                    // (touch creates the missing parent directories too, and is documented never to modify a file
                    // that exists)
                    let target_of_cp_mv = (j == 1 && matches!(op, Op::Cp(_, _) | Op::Mv(_, _))) || matches!(op, Op::Touch(_));
                    match resolve_creating(&t, p) {
                        // (a spelling that first creates the target itself as a directory - `nodir/../nodir` - is left
                        // with the unsettled ones)
                        Some((c, made)) if target_of_cp_mv && !too_long(p) && !made.contains(&c) => {
                            canonical.push(c);
                            created_on_the_way = made;
                            sim::with_core(|c| c.probe("target-spelled-through-a-directory-that-does-not-exist-yet"));
                        }
                        _ => unresolved = true,
                    }
                }
            }
        }
        world.arg_rewrite.clear();
        if unresolved {
            // stepping out of something that is not a directory: not settled; no panic, then adopt the disk state
            // (not when the run directory itself is among the named paths: it stays)
            if spelled.iter().any(|p| p.trim_end_matches('/') == ROOT) && matches!(op, Op::Rm(_, _) | Op::RmMany(_, _) | Op::Rmdir(_) | Op::Mv(_, _)) {
                continue;
            }
            let (cmd, args) = command_of(op);
            world.op(cmd, &args, &Want::Any, &args);
            sim::with_core(|c| c.probe("unresolvable-path-alias"));
            if !Path::new(ROOT).is_dir() {
                let _ = std::fs::remove_file(ROOT);
                let _ = std::fs::create_dir_all(ROOT);
            }
            t = real_tree();
            continue;
        }
        let aliased = canonical != spelled;
        let dotted = spelled.iter().any(|p| ends_in_dots(p));
        let canon_op = with_paths(op, &canonical);
        // (a multi-path rm changes the tree between its paths: a spelling through a directory that an earlier path
        // removes would no longer resolve; such lists are given in canonical form)
        let op = if aliased && matches!(op, Op::RmMany(_, _)) {
            &canon_op
        } else if aliased {
            for (j, (c, sp)) in canonical.iter().zip(spelled.iter()).enumerate() {
                if c != sp {
                    let occurrence = canonical[..j].iter().filter(|x| *x == c).count();
                    world.arg_rewrite.push((c.clone(), sp.clone(), occurrence));
                }
            }
            sim::with_core(|c| c.probe("path-alias-spelling"));
            &canon_op
        } else {
            op
        };
        let torn_here = case.torn.filter(|(k, _)| *k == i).map(|(_, l)| l);
        // paths whose state the statement leaves open after this operation (re-read from disk)
        let mut resync: Vec<String> = vec![];
        let mut resync_all = false;
        let before = t.clone();
        if let Some(l) = torn_here {
            set_fsize_limit(Some(l));
        }
        match op {
            Op::PlantBytes(p, bytes) => {
                if !blocked(&t, p) && !matches!(t.get(p), Some(Node::Dir)) {
                    ensure_parents(&mut t, p);
                    let _ = std::fs::create_dir_all(parent(p).unwrap_or_else(|| ROOT.to_string()));
                    let _ = std::fs::write(p, bytes);
                    t.insert(p.clone(), Node::File(bytes.clone()));
                    sim::with_core(|c| c.probe("invalid-utf8-planted"));
                }
            }
            Op::Write(p, text) | Op::Append(p, text) => {
                let append = matches!(op, Op::Append(_, _));
                let cmd = if append { "appendfile" } else { "writefile" };
                let is_blocked = blocked(&t, p) || matches!(t.get(p), Some(Node::Dir));
                if torn_here.is_some() {
                    // F14: outside the statement's failure domain; narrow requirement
                    let got = world.op(cmd, &[p.clone(), text.clone()], &Want::Any, &[p.clone(), format!("<{} bytes>", text.len())]);
                    let existing = match t.get(p) {
                        Some(Node::File(b)) if append => b.len() as u64,
                        _ => 0,
                    };
                    let cut = !is_blocked && existing + text.len() as u64 > torn_here.unwrap();
                    if cut {
                        sim::with_core(|c| {
                            c.fire("F14", &format!("write of {} bytes under a {} byte file size limit", text.len(), torn_here.unwrap()));
                            if got.val() == Some("true") {
                                c.violate("torn-write-reported-success", format!("{}: the kernel cut the write short (EFBIG) and the command answered true", label));
                            }
                        });
                        resync.push(p.clone());
                        for a in ancestors(p) {
                            resync.push(a);
                        }
                    } else if !is_blocked {
                        ensure_parents(&mut t, p);
                        let mut content = match t.get(p) {
                            Some(Node::File(b)) if append => b.clone(),
                            _ => vec![],
                        };
                        content.extend_from_slice(text.as_bytes());
                        t.insert(p.clone(), Node::File(content));
                    }
                } else if is_blocked {
                    world.op(cmd, &[p.clone(), text.clone()], &Want::Fail, &[p.clone(), text.clone()]);
                    sim::with_core(|c| {
                        *c.fired.entry("F8".to_string()).or_insert(0) += 1;
                        c.probe("write-on-file-as-dir-or-dir");
                    });
                } else {
                    world.op(cmd, &[p.clone(), text.clone()], &Want::True, &[p.clone(), text.clone()]);
                    if append && !t.contains_key(p) {
                        sim::with_core(|c| c.probe("append-to-missing-file"));
                    }
                    ensure_parents(&mut t, p);
                    let mut content = match t.get(p) {
                        Some(Node::File(b)) if append => b.clone(),
                        _ => vec![],
                    };
                    content.extend_from_slice(text.as_bytes());
                    t.insert(p.clone(), Node::File(content));
                }
            }
            Op::Read(p) => {
                let want = match t.get(p) {
                    Some(Node::File(b)) => match String::from_utf8(b.clone()) {
                        Ok(txt) => Want::Val(txt),
                        Err(_) => {
                            sim::with_core(|c| c.probe("read-of-invalid-utf8"));
                            Want::NoneOrFail
                        }
                    },
                    _ => {
                        sim::with_core(|c| *c.fired.entry("F8".to_string()).or_insert(0) += 1);
                        Want::NoneOrFail
                    }
                };
                world.op("readfile", &[p.clone()], &want, &[p.clone()]);
            }
            Op::WriteBin(p, text) => {
                let h = world.run("string_to_bytes", &[text.clone()]);
                let hs = h.val().unwrap_or("").to_string();
                let is_blocked = blocked(&t, p) || matches!(t.get(p), Some(Node::Dir));
                if is_blocked {
                    world.op("write_binary_file", &[p.clone(), hs.clone()], &Want::Fail, &[p.clone(), s("<bytes handle>")]);
                    sim::with_core(|c| *c.fired.entry("F8".to_string()).or_insert(0) += 1);
                } else {
                    world.op("write_binary_file", &[p.clone(), hs.clone()], &Want::True, &[p.clone(), s("<bytes handle>")]);
                    ensure_parents(&mut t, p);
                    t.insert(p.clone(), Node::File(text.as_bytes().to_vec()));
                }
                world.run("release", &[hs]);
            }
            Op::WriteBin2(p1, p2, text) => {
                let h = world.run("string_to_bytes", &[text.clone()]);
                let hs = h.val().unwrap_or("").to_string();
                sim::with_core(|c| c.probe("one-byte-handle-written-twice"));
                for p in [p1, p2] {
                    let is_blocked = blocked(&t, p) || matches!(t.get(p), Some(Node::Dir));
                    if is_blocked {
                        world.op("write_binary_file", &[p.clone(), hs.clone()], &Want::Fail, &[p.clone(), s("<bytes handle>")]);
                        sim::with_core(|c| *c.fired.entry("F8".to_string()).or_insert(0) += 1);
                    } else {
                        world.op("write_binary_file", &[p.clone(), hs.clone()], &Want::True, &[p.clone(), s("<bytes handle>")]);
                        ensure_parents(&mut t, p);
                        t.insert(p.clone(), Node::File(text.as_bytes().to_vec()));
                    }
                }
                world.run("release", &[hs]);
            }
            Op::ReadBin(p) => {
                let want = match t.get(p) {
                    Some(Node::File(_)) => Want::Handle,
                    _ => Want::NoneOrFail,
                };
                let got = world.op("read_binary_file", &[p.clone()], &want, &[p.clone()]);
                if let (Out::Val(h), Some(Node::File(b))) = (&got, t.get(p)) {
                    let bytes = match world.handles().and_then(|m| m.get(h)) {
                        Some(StateValue::ByteArray(x)) => Some(x.clone()),
                        _ => None,
                    };
                    if bytes.as_ref() != Some(b) {
                        sim::with_core(|c| c.violate("output-mismatch", format!("{}: the returned binary handle holds {:?}, model {:?}", label, bytes.map(|x| x.len()), b.len())));
                    }
                    world.run("release", &[h.clone()]);
                }
            }
            Op::Touch(p) => {
                if matches!(t.get(p), Some(Node::Dir)) && !blocked(&t, p) {
                    // "true if the file exists after the command": for an existing directory the help does not
                    // settle the answer; nothing may change
                    world.op("touch", &[p.clone()], &Want::Any, &[p.clone()]);
                    sim::with_core(|c| c.probe("touch-on-directory"));
                } else if blocked(&t, p) {
                    world.op("touch", &[p.clone()], &Want::Fail, &[p.clone()]);
                    sim::with_core(|c| *c.fired.entry("F8".to_string()).or_insert(0) += 1);
                } else {
                    if !created_on_the_way.is_empty() {
                        sim::with_core(|c| c.probe(if t.contains_key(p) { "touch-existing-file-spelled-through-a-missing-directory" } else { "touch-spelled-through-a-missing-directory" }));
                    }
                    world.op("touch", &[p.clone()], &Want::True, &[p.clone()]);
                    ensure_parents(&mut t, p);
                    t.entry(p.clone()).or_insert(Node::File(vec![]));
                }
            }
            Op::Mkdir(p) => {
                let is_blocked = blocked(&t, p) || matches!(t.get(p), Some(Node::File(_)));
                if is_blocked {
                    world.op("mkdir", &[p.clone()], &Want::Fail, &[p.clone()]);
                    sim::with_core(|c| *c.fired.entry("F8".to_string()).or_insert(0) += 1);
                } else {
                    world.op("mkdir", &[p.clone()], &Want::True, &[p.clone()]);
                    ensure_parents(&mut t, p);
                    t.insert(p.clone(), Node::Dir);
                }
            }
            Op::Cp(src, dst) => match t.get(src).cloned() {
                Some(Node::File(content)) if !blocked(&t, src) => {
                    if src == dst {
                        // copying a file onto itself: "leaves the source" - the content must survive
                        world.op("cp", &[src.clone(), dst.clone()], &Want::Any, &[src.clone(), dst.clone()]);
                        sim::with_core(|c| c.probe("cp-onto-itself"));
                    } else if blocked(&t, dst) || matches!(t.get(dst), Some(Node::Dir)) {
                        // any output; unchanged if it fails
                        let got = world.op("cp", &[src.clone(), dst.clone()], &Want::Any, &[src.clone(), dst.clone()]);
                        if !got.is_fail() {
                            resync_all = true;
                        }
                        sim::with_core(|c| *c.fired.entry("F8".to_string()).or_insert(0) += 1);
                    } else {
                        world.op("cp", &[src.clone(), dst.clone()], &Want::True, &[src.clone(), dst.clone()]);
                        if ancestors(dst).iter().any(|a| !t.contains_key(a)) {
                            sim::with_core(|c| c.probe("cp-creating-parents"));
                        }
                        ensure_parents(&mut t, dst);
                        t.insert(dst.clone(), Node::File(content));
                    }
                }
                Some(Node::Dir) => {
                    // directory sources: outside the domain
                    world.op("cp", &[src.clone(), dst.clone()], &Want::Any, &[src.clone(), dst.clone()]);
                    resync_all = true;
                }
                _ => {
                    world.op("cp", &[src.clone(), dst.clone()], &Want::Fail, &[src.clone(), dst.clone()]);
                    sim::with_core(|c| *c.fired.entry("F8".to_string()).or_insert(0) += 1);
                }
            },
            Op::Mv(src, dst) => match t.get(src).cloned() {
                Some(Node::File(_)) if !blocked(&t, src) && !created_on_the_way.is_empty() && src != dst && t.contains_key(dst) => {
                    // mv decides what kind of thing its target is BEFORE it creates the target's missing parents; a
                    // target that exists but is spelled through a directory that does not exist yet is then taken
                    // for a new name. What should happen is not settled by the statement: any answer, no panic
                    world.op("mv", &[src.clone(), dst.clone()], &Want::Any, &[src.clone(), dst.clone()]);
                    sim::with_core(|c| c.probe("mv-onto-existing-target-spelled-through-a-missing-directory"));
                    resync_all = true;
                }
                Some(Node::File(content)) if !blocked(&t, src) => {
                    let dst_node = t.get(dst).cloned();
                    if src == dst {
                        // moving a file onto itself: whatever it answers, the file must survive with its content
                        world.op("mv", &[src.clone(), dst.clone()], &Want::Any, &[src.clone(), dst.clone()]);
                        sim::with_core(|c| c.probe("mv-onto-itself"));
                    } else if blocked(&t, dst) {
                        world.op("mv", &[src.clone(), dst.clone()], &Want::Any, &[src.clone(), dst.clone()]);
                        resync_all = true;
                    } else if matches!(dst_node, Some(Node::Dir)) && !dst.ends_with('/') {
                        let target = format!("{}/{}", dst, base(src));
                        if target == *src {
                            // moving a file into the directory it is in: the same file under the same name. Whatever it
                            // answers, the file must survive with its content (as for `mv f f`)
                            world.op("mv", &[src.clone(), dst.clone()], &Want::Any, &[src.clone(), dst.clone()]);
                            sim::with_core(|c| c.probe("mv-into-its-own-directory"));
                        } else if matches!(t.get(&target), Some(Node::File(_))) {
                            // a file of that name already in the directory: refusing and replacing are both accepted,
                            // but answer and tree must agree - refused and nothing touched, or true and moved
                            let got = world.op("mv", &[src.clone(), dst.clone()], &Want::Any, &[src.clone(), dst.clone()]);
                            sim::with_core(|c| c.probe("mv-into-directory-holding-that-name"));
                            if got.val() == Some("true") {
                                t.remove(src);
                                t.insert(target, Node::File(content));
                            }
                        } else if t.contains_key(&target) {
                            // a directory of that name already in the directory: not settled
                            world.op("mv", &[src.clone(), dst.clone()], &Want::Any, &[src.clone(), dst.clone()]);
                            resync_all = true;
                        } else {
                            world.op("mv", &[src.clone(), dst.clone()], &Want::True, &[src.clone(), dst.clone()]);
                            sim::with_core(|c| c.probe("mv-into-existing-directory"));
                            t.remove(src);
                            t.insert(target, Node::File(content));
                        }
                    } else if (dst_node.is_none() && has_extension(dst)) || matches!(dst_node, Some(Node::File(_))) {
                        world.op("mv", &[src.clone(), dst.clone()], &Want::True, &[src.clone(), dst.clone()]);
                        ensure_parents(&mut t, dst);
                        t.remove(src);
                        t.insert(dst.clone(), Node::File(content));
                        if matches!(dst_node, Some(Node::File(_))) {
                            sim::with_core(|c| c.probe("mv-overwrites-file"));
                        }
                    } else {
                        // non-existing extension-less target, trailing separator: not settled
                        world.op("mv", &[src.clone(), dst.clone()], &Want::Any, &[src.clone(), dst.clone()]);
                        resync_all = true;
                    }
                }
                Some(Node::Dir) => {
                    world.op("mv", &[src.clone(), dst.clone()], &Want::Any, &[src.clone(), dst.clone()]);
                    resync_all = true;
                }
                _ => {
                    world.op("mv", &[src.clone(), dst.clone()], &Want::Fail, &[src.clone(), dst.clone()]);
                    sim::with_core(|c| *c.fired.entry("F8".to_string()).or_insert(0) += 1);
                }
            },
            Op::Rm(p, rec) => {
                let args: Vec<String> = if *rec { vec![s("-r"), p.clone()] } else { vec![p.clone()] };
                match t.get(p).cloned() {
                    _ if blocked(&t, p) => {
                        // a path below a file does not exist: output unconstrained, nothing changes
                        world.op("rm", &args, &Want::Any, &args);
                    }
                    None => {
                        world.op("rm", &args, &Want::Any, &args);
                    }
                    Some(Node::File(_)) => {
                        world.op("rm", &args, &Want::True, &args);
                        t.remove(p);
                    }
                    Some(Node::Dir) if dotted => {
                        // a directory named through itself (`d/.`) or through a child (`d/sub/..`): rm(1) refuses
                        // these, the statement's model takes the path for what it names. Either is accepted, but
                        // answer and tree must agree: removed and true, or refused and nothing touched
                        let got = world.op("rm", &args, &Want::Any, &args);
                        sim::with_core(|c| c.probe("rm-directory-spelled-with-trailing-dots"));
                        if !got.is_fail() && (!has_children(&t, p) || *rec) {
                            remove_subtree(&mut t, p);
                            if p == ROOT {
                                let _ = std::fs::create_dir_all(ROOT);
                                t.insert(ROOT.to_string(), Node::Dir);
                            }
                        }
                    }
                    Some(Node::Dir) => {
                        if has_children(&t, p) && !*rec {
                            world.op("rm", &args, &Want::Fail, &args);
                            sim::with_core(|c| {
                                c.probe("rm-non-empty-dir-without-r");
                                *c.fired.entry("F8".to_string()).or_insert(0) += 1;
                            });
                        } else {
                            world.op("rm", &args, &Want::True, &args);
                            if has_children(&t, p) {
                                sim::with_core(|c| c.probe("rm-r-non-empty-dir"));
                            }
                            remove_subtree(&mut t, p);
                            if p == ROOT {
                                // the run directory itself: recreate it in both
                                let _ = std::fs::create_dir_all(ROOT);
                                t.insert(ROOT.to_string(), Node::Dir);
                            }
                        }
                    }
                }
            }
            Op::RmMany(ps, rec) => {
                if ps.iter().any(|p| p == ROOT) {
                    // the run directory itself stays
                    continue;
                }
                let (_, args) = command_of(op);
                // walk the list on a copy of the model: does every step succeed, does any name a missing path?
                let mut t2 = t.clone();
                let mut fails = false;
                let mut missing = false;
                for p in ps {
                    if p == ROOT || too_long(p) {
                        fails = true;
                        break;
                    }
                    match t2.get(p).cloned() {
                        _ if blocked(&t2, p) => missing = true,
                        None => missing = true,
                        Some(Node::File(_)) => {
                            t2.remove(p);
                        }
                        Some(Node::Dir) => {
                            if has_children(&t2, p) && !*rec {
                                fails = true;
                                break;
                            }
                            remove_subtree(&mut t2, p);
                        }
                    }
                }
                if fails {
                    // stops at the failing path with the earlier ones gone: what a failing multi-path rm leaves is
                    // not settled by the statement
                    world.op("rm", &args, &Want::Any, &args);
                    resync_all = true;
                } else {
                    world.op("rm", &args, &if missing { Want::Any } else { Want::True }, &args);
                    sim::with_core(|c| c.probe(if missing { "rm-many-with-a-missing-path" } else { "rm-many" }));
                    t = t2;
                }
            }
            Op::Rmdir(p) => match t.get(p).cloned() {
                _ if blocked(&t, p) => {
                    world.op("rmdir", &[p.clone()], &Want::Any, &[p.clone()]);
                }
                None => {
                    world.op("rmdir", &[p.clone()], &Want::Any, &[p.clone()]);
                }
                Some(Node::File(_)) => {
                    world.op("rmdir", &[p.clone()], &Want::Fail, &[p.clone()]);
                }
                Some(Node::Dir) if dotted => {
                    let got = world.op("rmdir", &[p.clone()], &Want::Any, &[p.clone()]);
                    sim::with_core(|c| c.probe("rmdir-directory-spelled-with-trailing-dots"));
                    if !got.is_fail() && !has_children(&t, p) {
                        t.remove(p);
                        if p == ROOT {
                            let _ = std::fs::create_dir_all(ROOT);
                            t.insert(ROOT.to_string(), Node::Dir);
                        }
                    }
                }
                Some(Node::Dir) => {
                    if has_children(&t, p) {
                        world.op("rmdir", &[p.clone()], &Want::Fail, &[p.clone()]);
                    } else {
                        world.op("rmdir", &[p.clone()], &Want::True, &[p.clone()]);
                        t.remove(p);
                        if p == ROOT {
                            let _ = std::fs::create_dir_all(ROOT);
                            t.insert(ROOT.to_string(), Node::Dir);
                        }
                    }
                }
            },
            Op::Exists(p) => {
                let e = t.contains_key(p) && !blocked(&t, p);
                world.op("is_path_exists", &[p.clone()], &if e { Want::True } else { Want::False }, &[p.clone()]);
            }
            Op::IsFile(p) => {
                let e = matches!(t.get(p), Some(Node::File(_))) && !blocked(&t, p);
                world.op("is_file", &[p.clone()], &if e { Want::True } else { Want::False }, &[p.clone()]);
            }
            Op::IsDir(p) => {
                let e = matches!(t.get(p), Some(Node::Dir)) && !blocked(&t, p);
                world.op("is_dir", &[p.clone()], &if e { Want::True } else { Want::False }, &[p.clone()]);
            }
            Op::Size(p) => match t.get(p) {
                Some(Node::File(b)) if !blocked(&t, p) => {
                    world.op("get_file_size", &[p.clone()], &Want::Val(b.len().to_string()), &[p.clone()]);
                }
                _ => {
                    world.op("get_file_size", &[p.clone()], &Want::Fail, &[p.clone()]);
                }
            },
            Op::Glob(pat) => {
                let got = world.op("glob_array", &[pat.clone()], &Want::Handle, &[pat.clone()]);
                if let Out::Val(h) = got {
                    let mut real: BTreeSet<String> = BTreeSet::new();
                    let n: usize = world.run("array_length", &[h.clone()]).val().and_then(|x| x.parse().ok()).unwrap_or(0);
                    for k in 0..n {
                        if let Out::Val(v) = world.run("array_get", &[h.clone(), k.to_string()]) {
                            real.insert(v.trim_end_matches('/').to_string());
                        }
                    }
                    world.run("release", &[h]);
                    if let Some(want) = glob_model(&t, pat) {
                        if real != want {
                            sim::with_core(|c| c.violate("output-mismatch", format!("{}: glob gave {:?}, model {:?}", label, real, want)));
                        }
                    }
                }
            }
            Op::Basename(p) => {
                world.op("basename", &[p.clone()], &Want::Val(base(p)), &[p.clone()]);
            }
            Op::Dirname(p) => {
                let want = match parent(p) {
                    Some(d) if !d.is_empty() => Want::Val(d),
                    _ => Want::None,
                };
                world.op("dirname", &[p.clone()], &want, &[p.clone()]);
            }
            Op::JoinPath(parts) => {
                let joined = parts.join("/");
                let mut j = joined.clone();
                while j.contains("//") {
                    j = j.replace("//", "/");
                }
                world.op("join_path", parts, &Want::Val(j), parts);
            }
        }
        if torn_here.is_some() {
            set_fsize_limit(None);
        }
        // whether those directories were made (the command may have failed before or after making them) is left open;
        // the files themselves are compared strictly
        for d in &created_on_the_way {
            resync.push(d.clone());
        }
        for p in paths_of(op) {
            if too_long(&p) {
                // over-long names are not in the statement's pool: the operation must fail cleanly; whether the
                // missing parent directories were made on the way is left open
                sim::with_core(|c| c.probe("over-long-name"));
                for a in ancestors(&p) {
                    if !t.contains_key(&a) {
                        resync.push(a);
                    }
                }
            }
        }
        if let Some((class, detail)) = sim::with_core(|c| c.violation.clone()) {
            return Verdict::Fail { class, detail };
        }
        // full comparison of the tree after every step
        let real = real_tree();
        if resync_all {
            // unconstrained effect: adopt the disk state (no panic happened, that is all that is required)
            t = real.clone();
            sim::with_core(|c| c.probe("unconstrained-effect-resynchronised"));
        }
        let mut skip: BTreeSet<String> = BTreeSet::new();
        for p in &resync {
            skip.insert(p.clone());
        }
        if let Some(d) = diff(&real, &t, &skip) {
            let failing = before == t;
            return Verdict::Fail { class: if failing { "failed-operation-changed-tree".to_string() } else { "state-mismatch".to_string() }, detail: format!("after {}: {}", label, d) };
        }
        for p in &resync {
            match real.get(p) {
                Some(n) => {
                    t.insert(p.clone(), n.clone());
                }
                None => {
                    t.remove(p);
                }
            }
        }
    }
    let _ = std::fs::remove_dir_all(ROOT);
    Verdict::Pass
}

// ------------------------------------------------------------------ generation

const DIRS: [&str; 6] = ["run", "run/d1", "run/d1/d2", "run/d sp", "run/d\u{e9}", "run/e"];
// (the last three are the names a careless "write to a temporary sibling, then rename" would collide with)
const FILES: [&str; 8] = ["f.txt", "g.dat", "h h.txt", "\u{fc}.txt", "k.txt", "f.txt.tmp", "f.txt~", ".f.txt.swp"];
const TEXTS: [&str; 11] = ["", "hello", "two\nlines\n", "h\u{e9}llo \u{6f22}", "0123456789abcdefghijklmnopqrstuvwxyz", " ", "x", "line\r\n", "\u{feff}starts with a byte order mark", "\u{feff}", "ends without newline\n\n"];

fn gen_dir(rng: &mut Rng) -> String {
    rng.pick(&DIRS).to_string()
}

fn gen_file(rng: &mut Rng) -> String {
    if rng.chance(1, 60) {
        // a name longer than the file system allows (ENAMETOOLONG): every operation on it fails, nothing changes
        return format!("{}/{}.txt", rng.pick(&DIRS), "n".repeat(300));
    }
    format!("{}/{}", rng.pick(&DIRS), rng.pick(&FILES))
}

fn gen_any(rng: &mut Rng) -> String {
    match rng.below(10) {
        0..=5 => gen_file(rng),
        6 | 7 => gen_dir(rng),
        8 => format!("{}/x.txt", gen_file(rng)),
        _ => format!("{}/nodir", gen_dir(rng)),
    }
}

fn alias_of(rng: &mut Rng, p: &str) -> String {
    // an equivalent spelling of the same path
    let comps: Vec<&str> = p.split('/').collect();
    if comps.len() < 2 {
        return p.to_string();
    }
    let at = 1 + rng.usize(comps.len() - 1);
    let insert = match rng.below(4) {
        0 => ".".to_string(),
        1 => "".to_string(),
        _ => format!("{}/..", rng.pick(&["d1", "e", "d sp", "nodir"])),
    };
    let mut v: Vec<String> = comps.iter().map(|c| c.to_string()).collect();
    v.insert(at, insert);
    v.join("/")
}

fn dotted_spelling(rng: &mut Rng, p: &str) -> String {
    match rng.below(3) {
        0 => format!("{}/.", p),
        1 => format!("{}/{}/..", p, rng.pick(&["d2", "d1", "nodir"])),
        _ => format!("{}/./", p),
    }
}

fn gen_op(rng: &mut Rng) -> Op {
    let op = gen_op_raw(rng);
    // the same file named twice, once through an alias (`dir/..`, `.`, `//`)
    let op = match &op {
        Op::Cp(a, _) if rng.chance(1, 12) => Op::Cp(a.clone(), alias_of(rng, a)),
        Op::Cp(_, b) if rng.chance(1, 12) => Op::Cp(alias_of(rng, b), b.clone()),
        Op::Mv(a, _) if rng.chance(1, 12) => Op::Mv(alias_of(rng, a), a.clone()),
        _ => op,
    };
    let op = if rng.chance(1, 10) {
        let ps = paths_of(&op);
        if ps.is_empty() {
            op
        } else {
            let k = rng.usize(ps.len());
            let mut ps2 = ps.clone();
            ps2[k] = alias_of(rng, &ps[k]);
            with_paths(&op, &ps2)
        }
    } else {
        op
    };
    // a directory named through itself or through a child: `d/.`, `d/d2/..`
    let op = match &op {
        Op::Rm(p, r) if rng.chance(1, 10) => Op::Rm(dotted_spelling(rng, p), *r),
        Op::Rmdir(p) if rng.chance(1, 8) => Op::Rmdir(dotted_spelling(rng, p)),
        Op::IsDir(p) | Op::Exists(p) if rng.chance(1, 10) => with_paths(&op, &[dotted_spelling(rng, p)]),
        // a file moved or copied into the directory it is already in (the target is then the file itself)
        Op::Mv(a, _) if rng.chance(1, 10) && parent(a).map(|d| d != ROOT).unwrap_or(false) => Op::Mv(a.clone(), parent(a).unwrap()),
        Op::Cp(a, _) if rng.chance(1, 14) && parent(a).map(|d| d != ROOT).unwrap_or(false) => Op::Cp(a.clone(), parent(a).unwrap()),
        _ => op,
    };
    match &op {
        // a directory copied or moved into itself (or the run directory as a source) is pathological and outside
        // the statement's domain twice over (directory sources): not generated
        Op::Cp(src, dst) | Op::Mv(src, dst) if src == ROOT || dst.starts_with(&format!("{}/", src)) => Op::Exists(src.clone()),
        _ => op,
    }
}

fn gen_op_raw(rng: &mut Rng) -> Op {
    match rng.below(40) {
        0..=5 => Op::Write(if rng.chance(1, 10) { gen_any(rng) } else { gen_file(rng) }, rng.pick(&TEXTS).to_string()),
        6..=8 => Op::Append(if rng.chance(1, 10) { gen_any(rng) } else { gen_file(rng) }, rng.pick(&TEXTS).to_string()),
        9..=11 => Op::Read(gen_any(rng)),
        12 if rng.chance(1, 3) => Op::WriteBin2(gen_any(rng), gen_file(rng), rng.pick(&TEXTS).to_string()),
        12 => Op::WriteBin(gen_file(rng), rng.pick(&TEXTS).to_string()),
        13 => Op::ReadBin(gen_any(rng)),
        14 | 15 => Op::Touch(gen_any(rng)),
        16 | 17 => Op::Mkdir(if rng.chance(1, 5) { gen_any(rng) } else { gen_dir(rng) }),
        18..=21 => Op::Cp(if rng.chance(1, 12) { gen_any(rng) } else { gen_file(rng) }, if rng.chance(1, 8) { gen_any(rng) } else { gen_file(rng) }),
        22..=25 => Op::Mv(if rng.chance(1, 12) { gen_any(rng) } else { gen_file(rng) }, if rng.chance(1, 3) { gen_dir(rng) } else if rng.chance(1, 10) { gen_any(rng) } else { gen_file(rng) }),
        26..=28 if rng.chance(1, 6) => Op::RmMany((0..2 + rng.usize(3)).map(|_| gen_any(rng)).collect(), rng.chance(1, 2)),
        26..=28 => Op::Rm(gen_any(rng), rng.chance(1, 3)),
        29 => Op::Rmdir(gen_any(rng)),
        30 => Op::Exists(gen_any(rng)),
        31 => Op::IsFile(gen_any(rng)),
        32 => Op::IsDir(gen_any(rng)),
        33 | 34 => Op::Size(gen_any(rng)),
        35 => Op::Glob(if rng.chance(1, 2) { format!("{}/*", gen_dir(rng)) } else { format!("{}/**/*.txt", gen_dir(rng)) }),
        36 => Op::Basename(gen_any(rng)),
        37 => Op::Dirname(gen_any(rng)),
        38 => Op::JoinPath((0..1 + rng.usize(3)).map(|_| rng.pick(&["run", "d1", "d1/", "/f.txt", "d sp", "g.dat"]).to_string()).collect()),
        _ => Op::PlantBytes(gen_file(rng), vec![0x66, 0xff, 0xfe, 0x0a]),
    }
}

pub struct C18;

impl Prop for C18 {
    fn id(&self) -> &'static str {
        "C18"
    }
    fn info(&self) -> PropInfo {
        PropInfo {
            level: "exploration",
            rule: "seeded histories of 1-30 file operations (the statement's command list) on a private directory tree inside the worker's chroot jail on tmpfs: nested directories, names with spaces and non-ASCII, contents incl. empty / multi-line / non-ASCII / planted invalid UTF-8; paths that are missing, a directory where a file is expected and vice versa, below a file; in one run of five one write is cut short by the kernel (RLIMIT_FSIZE, F14). After EVERY step the directory tree is walked and compared in full (names, kinds, contents) with a BTreeMap model. Corners the statement leaves open re-synchronise the model from disk. Non-trivial = >= 3 operations (and F14 fired in F14 runs); distinct = distinct abstract traces",
            real: &["SDK fs::* commands, utils::io", "fsio, fs_extra, glob crates", "the kernel's tmpfs (real syscalls)"],
            stub: &["none"],
            assumptions: &["file names carry an extension, directory names do not", "directory sources for cp/mv, rm output on a missing path, mv to a non-existing extension-less target or onto an occupied name in a directory, cp onto a directory: unconstrained (model adopts the disk state)", "F14 is outside the statement's path-shaped failure domain: only 'does not answer true, no panic, other paths unchanged' is required"],
            needs_jail: true,
            needs_duck: false,
            expected_probes: &["append-to-missing-file", "cp-creating-parents", "mv-into-existing-directory", "mv-overwrites-file", "rm-non-empty-dir-without-r", "rm-r-non-empty-dir", "write-on-file-as-dir-or-dir", "read-of-invalid-utf8"],
        }
    }
    fn runs(&self, tier: &str) -> u64 {
        if tier == "quick" { 30_000 } else { 1_500_000 }
    }
    fn generate(&self, rng: &mut Rng, _avoid: &[String]) -> Value {
        let n = match rng.below(3) {
            0 => 1 + rng.usize(4),
            1 => 3 + rng.usize(10),
            _ => 8 + rng.usize(22),
        };
        let mut ops: Vec<Op> = (0..n).map(|_| gen_op(rng)).collect();
        if rng.chance(1, 25) {
            // big mode: more than 16 entries in one directory, a content larger than 64 KiB
            let dir = gen_dir(rng);
            let mut pre: Vec<Op> = (0..17 + rng.usize(8)).map(|k| Op::Write(format!("{}/n{}.txt", dir, k), format!("c{}", k))).collect();
            pre.push(Op::Write(format!("{}/big.dat", dir), "0123456789abcdef".repeat(4200)));
            // multi-byte characters at every offset around the 64 KiB and 128 KiB marks (a reader working in blocks
            // must not cut one in two): an ASCII pad of 0..3 bytes, then two-, three- and four-byte characters
            let pad = "x".repeat(rng.usize(4));
            let wide = format!("{}{}", pad, "\u{e9}\u{6f22}\u{1f600}\u{11b}".repeat(13_000));
            pre.push(Op::Write(format!("{}/wide.txt", dir), wide.clone()));
            pre.push(Op::Read(format!("{}/wide.txt", dir)));
            pre.push(Op::Append(format!("{}/wide.txt", dir), "\u{e9}".to_string()));
            pre.push(Op::Read(format!("{}/wide.txt", dir)));
            pre.push(Op::Glob(format!("{}/*", dir)));
            pre.push(Op::Glob(format!("{}/**/*.txt", ROOT)));
            pre.push(Op::Cp(format!("{}/big.dat", dir), format!("{}/copy/big2.dat", dir)));
            pre.push(Op::Size(format!("{}/copy/big2.dat", dir)));
            // a file of exactly one, two or three 64 KiB blocks, copied and moved (a copier working in blocks must not
            // lose the last full one)
            let blocks = 1 + rng.usize(3);
            pre.push(Op::Write(format!("{}/blk.dat", dir), "0123456789abcdef".repeat(4096 * blocks)));
            pre.push(Op::Cp(format!("{}/blk.dat", dir), format!("{}/copy/blk2.dat", dir)));
            pre.push(Op::Size(format!("{}/copy/blk2.dat", dir)));
            pre.push(Op::Mv(format!("{}/copy/blk2.dat", dir), format!("{}/blk3.dat", dir)));
            pre.push(Op::Size(format!("{}/blk3.dat", dir)));
            pre.extend(ops.drain(..));
            pre.push(Op::Rm(dir.clone(), true));
            ops = pre;
        }
        if rng.chance(1, 20) {
            // a directory whose name looks like a file's (`h h.txt/`), then a file moved or copied onto that name
            let d = gen_file(rng);
            let f = gen_file(rng);
            if !too_long(&d) && !too_long(&f) && f != d && !f.starts_with(&format!("{}/", d)) {
                let at = rng.usize(ops.len() + 1);
                let third = if rng.chance(2, 3) { Op::Mv(f.clone(), d.clone()) } else { Op::Cp(f.clone(), d.clone()) };
                for (k, op) in [Op::Mkdir(d.clone()), Op::Write(f.clone(), "moved".to_string()), third].into_iter().enumerate() {
                    ops.insert(at + k, op);
                }
            }
        }
        let torn = if rng.chance(1, 5) {
            let writes: Vec<usize> = ops.iter().enumerate().filter(|(_, o)| matches!(o, Op::Write(_, t) | Op::Append(_, t) if t.len() > 3)).map(|(i, _)| i).collect();
            if writes.is_empty() { None } else { Some((*rng.pick(&writes), 1 + rng.below(3))) }
        } else {
            None
        };
        serde_json::to_value(Case { entropy: rng.next_u64(), ops, torn }).unwrap()
    }
    fn execute(&self, case: &Value, env: &WorkerEnv) -> Outcome {
        let case: Case = match serde_json::from_value(case.clone()) {
            Ok(c) => c,
            Err(e) => return Outcome::collect(Verdict::Inconclusive { reason: format!("bad case: {}", e) }, false),
        };
        if !env.chrooted {
            // relative paths resolve against the worker's private directory
            let _ = std::env::set_current_dir(&env.jail_root);
        }
        let res = std::panic::catch_unwind(std::panic::AssertUnwindSafe(|| run_case(&case)));
        set_fsize_limit(None);
        let verdict = match res {
            Ok(v) => v,
            Err(_) => {
                let p = sim::take_panic().unwrap_or_default();
                Verdict::Fail { class: format!("panic@{}", sim::panic_site(&p)), detail: p }
            }
        };
        let _ = std::fs::remove_dir_all(ROOT);
        Outcome::collect(verdict, case.torn.is_some())
    }
    fn shrink(&self, case: &Value) -> Vec<Value> {
        let case: Case = match serde_json::from_value(case.clone()) {
            Ok(c) => c,
            Err(_) => return vec![],
        };
        let mut out: Vec<Case> = vec![];
        let n = case.ops.len();
        if case.torn.is_some() {
            let mut c = case.clone();
            c.torn = None;
            out.push(c);
        }
        if n > 3 {
            let mut c = case.clone();
            c.ops.truncate(n / 2);
            if c.torn.map(|(i, _)| i >= n / 2).unwrap_or(false) {
                c.torn = None;
            }
            out.push(c);
        }
        for i in (0..n).rev() {
            let mut c = case.clone();
            c.ops.remove(i);
            c.torn = match c.torn {
                Some((k, _)) if k == i => None,
                Some((k, l)) if k > i => Some((k - 1, l)),
                x => x,
            };
            out.push(c);
        }
        for i in 0..n {
            match &case.ops[i] {
                Op::Write(p, t) if !t.is_empty() && t != "x" => {
                    let mut c = case.clone();
                    c.ops[i] = Op::Write(p.clone(), "x".to_string());
                    out.push(c);
                }
                Op::Append(p, t) if !t.is_empty() && t != "x" => {
                    let mut c = case.clone();
                    c.ops[i] = Op::Append(p.clone(), "x".to_string());
                    out.push(c);
                }
                _ => {}
            }
        }
        if case.entropy != 0 {
            let mut c = case.clone();
            c.entropy = 0;
            out.push(c);
        }
        out.into_iter().filter(|c| *c != case).map(|c| serde_json::to_value(c).unwrap()).collect()
    }
}
