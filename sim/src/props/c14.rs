//! C14 - including files is equivalent to pasting them in place, with provenance kept.
//! Real files on the jail's tmpfs; oracle = a textual inliner (model) + differential run of the
//! pasted text.

use crate::prop::{Outcome, Prop, PropInfo, Verdict, WorkerEnv};
use crate::props::c03::render_arg;
use crate::props::gen;
use crate::rng::Rng;
use crate::sim::{self, Event, SimWriter};
use duckscript::parser;
use duckscript::runner;
use duckscript::types::env::Env;
use duckscript::types::error::ScriptError;
use duckscript::types::instruction::{Instruction, InstructionType};
use serde::{Deserialize, Serialize};
use serde_json::Value;
use std::collections::BTreeMap;
use std::path::{Path, PathBuf};

#[derive(Serialize, Deserialize, Clone, Debug, PartialEq)]
pub struct IncRef {
    pub file: usize,
    pub absolute: bool,
}

#[derive(Serialize, Deserialize, Clone, Debug, PartialEq)]
pub enum Line {
    Emit(String),
    Set(String, String),
    Blank,
    Comment,
    Label(String),
    Goto(String),
    /// a failing command followed by probes of the last error's line and source
    Fail(String),
    Include(Vec<IncRef>),
    /// fault: a malformed line (unterminated quote / bad escape)
    Malformed(u8),
    /// n physical lines of multi-byte text (a file of 64 KiB and more; pad shifts every character's byte offset)
    Bulk { n: usize, pad: usize },
}

#[derive(Serialize, Deserialize, Clone, Debug, PartialEq)]
pub struct FileSpec {
    pub path: String,
    pub lines: Vec<Line>,
    /// CRLF line endings in this file
    #[serde(default)]
    pub crlf: bool,
    /// the last line has no line terminator
    #[serde(default)]
    pub no_final_newline: bool,
    /// the file's first line is a comment spelled as an interpreter line (`#!/usr/bin/env duck`): still a line of its own
    #[serde(default)]
    pub shebang: bool,
}

#[derive(Serialize, Deserialize, Clone, Debug, PartialEq)]
pub enum FileFault {
    Missing(usize),
    IsDirectory(usize),
    InvalidUtf8(usize),
}

#[derive(Serialize, Deserialize, Clone, Debug, PartialEq)]
pub struct Case {
    pub entropy: u64,
    pub files: Vec<FileSpec>,
    pub root_absolute: bool,
    pub fault: Option<FileFault>,
    /// the process works inside the script's directory and names the root by its bare file name
    #[serde(default)]
    pub root_bare: bool,
    /// after the first round one file that is included by a non-root file is rewritten (every other file stays
    /// as it is on disk) and the tree is parsed again in the same process
    #[serde(default)]
    pub edit_nested: bool,
    /// `run/lnk` is a symbolic link to the directory `run/a/b`, and absolute include arguments that name a file in
    /// that directory are spelled through the link: relative includes of such a file (`../x.ds`) climb out of the
    /// real directory, as the kernel resolves them, not out of the link
    #[serde(default)]
    pub link_abs: bool,
    /// this included file is a named pipe; a second party writes its text every time somebody opens it for
    /// reading (a reader that trusts the size the file system reports reads nothing)
    #[serde(default)]
    pub fifo: Option<usize>,
}

/// the other end of the named pipe: waits until a reader has the pipe open, writes the text, closes; again for the
/// next reader; ends when dropped
/// set by a feeder that lost its reader (see `stalled`); looked at once the run is over
static FIFO_STALLED: std::sync::atomic::AtomicBool = std::sync::atomic::AtomicBool::new(false);

struct FifoFeeder {
    stop: std::sync::Arc<std::sync::atomic::AtomicBool>,
    /// the feeder waited in vain for the reader's close: from then on it serves every open without waiting, and
    /// the run is inconclusive (the harness's two parties lost each other; seen once in some millions of runs)
    stalled: std::sync::Arc<std::sync::atomic::AtomicBool>,
    handle: Option<std::thread::JoinHandle<()>>,
}

impl FifoFeeder {
    fn start(path: PathBuf, text: String) -> FifoFeeder {
        use std::os::unix::fs::OpenOptionsExt;
        let stop = std::sync::Arc::new(std::sync::atomic::AtomicBool::new(false));
        let s2 = stop.clone();
        let stalled = std::sync::Arc::new(std::sync::atomic::AtomicBool::new(false));
        let st2 = stalled.clone();
        // (DSIM_FIFO_STALL_MS: for trying the stall path out)
        let stall_ms: u64 = std::env::var("DSIM_FIFO_STALL_MS").ok().and_then(|v| v.parse().ok()).unwrap_or(10_000);
        let handle = std::thread::spawn(move || {
            use std::io::Write;
            // the reader's close is awaited through inotify (IN_CLOSE_NOWRITE): the write end is not opened again while
            // the previous reader still holds the pipe, or it would read the text twice
            let cpath = std::ffi::CString::new(path.to_string_lossy().as_bytes()).unwrap();
            let ino = unsafe { libc::inotify_init1(libc::IN_NONBLOCK) };
            if ino >= 0 {
                unsafe {
                    libc::inotify_add_watch(ino, cpath.as_ptr(), libc::IN_CLOSE_NOWRITE);
                }
            }
            while !s2.load(std::sync::atomic::Ordering::SeqCst) {
                // opening the write end without blocking succeeds only while a reader has the pipe open
                match std::fs::OpenOptions::new().write(true).custom_flags(libc::O_NONBLOCK).open(&path) {
                    Ok(mut f) => {
                        // back to blocking writes: the text may exceed the pipe buffer
                        unsafe {
                            use std::os::unix::io::AsRawFd;
                            let fl = libc::fcntl(f.as_raw_fd(), libc::F_GETFL);
                            libc::fcntl(f.as_raw_fd(), libc::F_SETFL, fl & !libc::O_NONBLOCK);
                        }
                        let _ = f.write_all(text.as_bytes());
                        drop(f);
                        if st2.load(std::sync::atomic::Ordering::SeqCst) {
                            // (out of step: leave the reader time to see the end of the text)
                            std::thread::sleep(std::time::Duration::from_millis(2));
                        }
                        // wait for that reader to close
                        let mut buf = [0u8; 4096];
                        let waiting_since = std::time::Instant::now();
                        while ino >= 0 && !s2.load(std::sync::atomic::Ordering::SeqCst) && !st2.load(std::sync::atomic::Ordering::SeqCst) {
                            let n = unsafe { libc::read(ino, buf.as_mut_ptr() as *mut libc::c_void, buf.len()) };
                            if n > 0 {
                                break;
                            }
                            if waiting_since.elapsed().as_millis() as u64 >= stall_ms {
                                st2.store(true, std::sync::atomic::Ordering::SeqCst);
                                FIFO_STALLED.store(true, std::sync::atomic::Ordering::SeqCst);
                                break;
                            }
                            std::thread::sleep(std::time::Duration::from_micros(50));
                        }
                    }
                    Err(_) => std::thread::sleep(std::time::Duration::from_micros(100)),
                }
            }
            if ino >= 0 {
                unsafe {
                    libc::close(ino);
                }
            }
        });
        FifoFeeder { stop, stalled, handle: Some(handle) }
    }
}

impl Drop for FifoFeeder {
    fn drop(&mut self) {
        self.stop.store(true, std::sync::atomic::Ordering::SeqCst);
        if let Some(h) = self.handle.take() {
            let _ = h.join();
        }
    }
}

const ROOT: &str = "run";
// (two files carry the root's own base name in other directories)
// (and a directory whose name looks like a drive letter)
// (and two files in a directory whose name has multi-byte characters, next to a directory named by its first character)
const PATHS: [&str; 14] = ["run/main.ds", "run/a/x.ds", "run/a/b/y.ds", "run/lib z/w.ds", "run/a/b/c/deep.ds", "run/q.ds", "run/a/n\u{e9}.ds", "run/a/main.ds", "run/lib z/main.ds", "run/m:/util.ds", "run/a/c:/t.ds", "run/\u{65e5}\u{672c}/u.ds", "run/\u{65e5}\u{672c}/v.ds", "run/\u{65e5}/v.ds"];

fn abs_base(env: &WorkerEnv) -> PathBuf {
    if env.chrooted { PathBuf::from("/") } else { env.jail_root.clone() }
}

fn relative_from(from_dir: &str, to: &str) -> String {
    let f: Vec<&str> = from_dir.split('/').collect();
    let t: Vec<&str> = to.split('/').collect();
    let mut common = 0;
    while common < f.len() && common < t.len() - 1 && f[common] == t[common] {
        common += 1;
    }
    let mut parts: Vec<String> = vec![];
    for _ in common..f.len() {
        parts.push("..".to_string());
    }
    for p in &t[common..] {
        parts.push(p.to_string());
    }
    parts.join("/")
}

fn dir_of(p: &str) -> String {
    match p.rfind('/') {
        Some(i) => p[..i].to_string(),
        None => String::new(),
    }
}

/// the text of one line as written into the file; `Fail` takes three physical lines
fn render_line(case: &Case, file: usize, l: &Line, base: &Path) -> Vec<String> {
    match l {
        Line::Emit(id) => vec![format!("emit {}", id)],
        Line::Set(x, v) => vec![format!("{} = set {}", x, render_arg(v))],
        Line::Blank => vec![String::new()],
        Line::Comment => vec!["# comment".to_string()],
        Line::Label(lb) => vec![format!(":{}", lb)],
        Line::Goto(lb) => vec![format!("goto :{}", lb)],
        Line::Fail(m) => vec![format!("hfail {}", m), "el = get_last_error_line".to_string(), "es = get_last_error_source".to_string(), format!("emit ERR {} ${{el}} ${{es}}", m)],
        Line::Include(refs) => {
            let mut s = "!include_files".to_string();
            for r in refs {
                let target = &case.files[r.file].path;
                let via_link = r.absolute && case.link_abs && case.fault.is_none() && target.starts_with("run/a/b/") && !target["run/a/b/".len()..].contains('/');
                let arg = if via_link {
                    base.join(target.replacen("run/a/b/", "run/lnk/", 1)).to_string_lossy().to_string()
                } else if r.absolute { base.join(target).to_string_lossy().to_string() } else { relative_from(&dir_of(&case.files[file].path), target) };
                s.push(' ');
                s.push_str(&render_arg(&arg));
            }
            vec![s]
        }
        Line::Bulk { n, pad } => (0..*n).map(|i| format!("emit b{} {}{}", i, "x".repeat(*pad), "\u{e9}\u{6f22}\u{1f600}\u{11b}".repeat(6))).collect(),
        Line::Malformed(k) => vec![match k % 3 {
            0 => "emit \"unterminated".to_string(),
            1 => "emit bad\\qescape".to_string(),
            _ => "x = ".to_string() + "\"quoted\" cmd",
        }],
    }
}

fn file_text(case: &Case, file: usize, base: &Path) -> String {
    let text = file_text_full(case, file, base);
    if case.files[file].no_final_newline {
        text.trim_end_matches(|c| c == '\n' || c == '\r').to_string()
    } else {
        text
    }
}

fn file_text_full(case: &Case, file: usize, base: &Path) -> String {
    let mut out = String::new();
    for (i, l) in case.files[file].lines.iter().enumerate() {
        for pl in render_line(case, file, l, base) {
            let pl = if i == 0 && case.files[file].shebang && matches!(l, Line::Comment) { "#!/usr/bin/env duck".to_string() } else { pl };
            out.push_str(&pl);
            out.push_str(if case.files[file].crlf { "\r\n" } else { "\n" });
        }
    }
    out
}

#[derive(Clone, Debug, PartialEq)]
struct Tag {
    file: usize,
    line: usize,
}

/// the model: flattening with provenance, and the pasted text
fn inline(case: &Case, file: usize, base: &Path, tags: &mut Vec<Tag>, pasted: &mut String, depth: usize) {
    let mut line_no = 0usize;
    for l in &case.files[file].lines {
        let phys = render_line(case, file, l, base);
        for (k, pl) in phys.iter().enumerate() {
            line_no += 1;
            tags.push(Tag { file, line: line_no });
            if let (Line::Include(refs), 0) = (l, k) {
                pasted.push_str("# include directive\n");
                if depth < 64 {
                    for r in refs {
                        inline(case, r.file, base, tags, pasted, depth + 1);
                    }
                }
            } else {
                pasted.push_str(pl);
                pasted.push('\n');
            }
        }
    }
}

fn canon(p: &str) -> String {
    std::fs::canonicalize(p).map(|x| x.to_string_lossy().to_string()).unwrap_or_else(|_| p.to_string())
}

fn emits_of(log: &[Event]) -> Vec<Vec<String>> {
    log.iter().filter_map(|e| if let Event::Emit { args, .. } = e { Some(args.clone()) } else { None }).collect()
}

fn new_context() -> duckscript::types::runtime::Context {
    let mut context = gen::sdk_context();
    gen::add_harness(&mut context.commands);
    sim::decorate(&mut context.commands);
    context
}

fn new_env() -> Env {
    Env::new(Some(Box::new(SimWriter::new("out", vec![]))), Some(Box::new(SimWriter::new("err", vec![]))), None)
}

fn first_malformed(case: &Case, file: usize, depth: usize) -> Option<(usize, usize)> {
    // in parse order: the first malformed line reached (file, physical line)
    let mut line_no = 0;
    for l in &case.files[file].lines {
        match l {
            Line::Malformed(_) => return Some((file, line_no + 1)),
            Line::Include(refs) => {
                line_no += 1;
                if depth < 64 {
                    for r in refs {
                        if let Some(x) = first_malformed(case, r.file, depth + 1) {
                            return Some(x);
                        }
                    }
                }
                continue;
            }
            Line::Fail(_) => line_no += 4,
            Line::Bulk { n, .. } => line_no += *n,
            _ => line_no += 1,
        }
    }
    None
}

/// order in which the parser first opens the files, stopping where a malformed line stops it
fn first_problem(case: &Case, file: usize, depth: usize, fault_file: Option<usize>) -> Option<Problem> {
    let mut line_no = 0;
    for l in &case.files[file].lines {
        match l {
            Line::Malformed(_) => return Some(Problem::Malformed(file, line_no + 1)),
            Line::Include(refs) => {
                line_no += 1;
                if depth < 64 {
                    for r in refs {
                        if Some(r.file) == fault_file {
                            return Some(Problem::Unreadable(r.file));
                        }
                        if let Some(x) = first_problem(case, r.file, depth + 1, fault_file) {
                            return Some(x);
                        }
                    }
                }
            }
            Line::Fail(_) => line_no += 4,
            Line::Bulk { n, .. } => line_no += *n,
            _ => line_no += 1,
        }
    }
    None
}

#[derive(Debug, PartialEq)]
enum Problem {
    Malformed(usize, usize),
    Unreadable(usize),
}

fn meta_of(e: &ScriptError) -> Option<(Option<usize>, Option<String>)> {
    use ScriptError::*;
    match e {
        PreProcessNoCommandFound(m) | ControlWithoutValidValue(m) | InvalidControlLocation(m) | MissingEndQuotes(m) | MissingOutputVariableName(m) | InvalidEqualsLocation(m) | InvalidQuotesLocation(m) | EmptyLabel(m)
        | UnknownPreProcessorCommand(m) => Some((m.line, m.source.clone())),
        _ => None,
    }
}

fn check_provenance(case: &Case, instructions: &[Instruction], tags: &[Tag], canon_files: &[String], round: &str) -> Option<Verdict> {
    if instructions.len() != tags.len() {
        return Some(Verdict::Fail { class: "instruction-count".to_string(), detail: format!("{}parse_file gave {} instructions, the flattening has {}", round, instructions.len(), tags.len()) });
    }
    for (i, (ins, tag)) in instructions.iter().zip(tags.iter()).enumerate() {
        let src = ins.meta_info.source.clone().map(|s| canon(&s));
        if ins.meta_info.line != Some(tag.line) || src.as_deref() != Some(canon_files[tag.file].as_str()) {
            return Some(Verdict::Fail {
                class: "provenance".to_string(),
                detail: format!("{}instruction #{} is tagged line {:?} of {:?}; it is line {} of {}", round, i, ins.meta_info.line, ins.meta_info.source, tag.line, case.files[tag.file].path),
            });
        }
    }
    None
}

fn run_case(case: &Case, env: &WorkerEnv) -> Verdict {
    let base = abs_base(env);
    let _ = std::fs::remove_dir_all(ROOT);
    // write the tree
    for (i, f) in case.files.iter().enumerate() {
        let p = Path::new(&f.path);
        if let Some(d) = p.parent() {
            let _ = std::fs::create_dir_all(d);
        }
        match &case.fault {
            Some(FileFault::Missing(k)) if *k == i => {
                sim::with_core(|c| c.fire("F8", &format!("{} missing", f.path)));
            }
            Some(FileFault::IsDirectory(k)) if *k == i => {
                let _ = std::fs::create_dir_all(p);
                sim::with_core(|c| c.fire("F8", &format!("{} is a directory", f.path)));
            }
            Some(FileFault::InvalidUtf8(k)) if *k == i => {
                let _ = std::fs::write(p, [0x65u8, 0x6d, 0x69, 0x74, 0x20, 0xff, 0xfe, 0x0a]);
                sim::with_core(|c| c.fire("F8", &format!("{} is not UTF-8", f.path)));
            }
            _ if case.fifo == Some(i) && i > 0 && case.fault.is_none() => {
                let c = std::ffi::CString::new(f.path.as_bytes()).unwrap();
                unsafe {
                    libc::mkfifo(c.as_ptr(), 0o644);
                }
            }
            _ => {
                let _ = std::fs::write(p, file_text(case, i, &base));
            }
        }
    }
    let _feeder = match case.fifo {
        Some(k) if k > 0 && k < case.files.len() && case.fault.is_none() => {
            sim::with_core(|c| c.probe("included-file-is-a-named-pipe"));
            Some(FifoFeeder::start(base.join(&case.files[k].path), file_text(case, k, &base)))
        }
        _ => None,
    };
    if case.link_abs && case.fault.is_none() && Path::new("run/a/b").is_dir() {
        if std::os::unix::fs::symlink("a/b", "run/lnk").is_ok() {
            sim::with_core(|c| c.probe("include-through-a-directory-link"));
        }
    }
    let canon_files: Vec<String> = case.files.iter().map(|f| canon(&f.path)).collect();
    let bare = case.root_bare && case.fault.is_none() && first_malformed(case, 0, 0).is_none();
    let root_arg = if bare {
        // work inside the script's directory and name it by its bare file name
        let _ = std::env::set_current_dir(ROOT);
        sim::with_core(|c| c.probe("root-by-bare-file-name"));
        "main.ds".to_string()
    } else if case.root_absolute {
        base.join(&case.files[0].path).to_string_lossy().to_string()
    } else {
        case.files[0].path.clone()
    };
    let fault_file = match &case.fault {
        Some(FileFault::Missing(k)) | Some(FileFault::IsDirectory(k)) | Some(FileFault::InvalidUtf8(k)) => Some(*k),
        None => None,
    };
    let problem = if fault_file == Some(0) { Some(Problem::Unreadable(0)) } else { first_problem(case, 0, 0, fault_file) };
    let parsed = parser::parse_file(&root_arg);
    sim::with_core(|c| c.note(&format!("parse_file {} -> {}", root_arg, if parsed.is_ok() { "Ok" } else { "Err" })));
    if let Some(f) = &_feeder {
        if f.stalled.load(std::sync::atomic::Ordering::SeqCst) {
            return Verdict::Inconclusive { reason: "the named pipe's feeder waited 10 s in vain for the reader to close: harness parties out of step".to_string() };
        }
    }

    // ---- clause 4: fault variants fail the whole parse, naming the file / line
    if let Some(pb) = &problem {
        return match (&parsed, pb) {
            (Ok(_), _) => Verdict::Fail { class: "parse-accepted-faulty-tree".to_string(), detail: format!("the tree contains {:?} yet parse_file succeeded", pb) },
            (Err(ScriptError::ErrorReadingFile(f, _)), Problem::Unreadable(k)) => {
                sim::with_core(|c| c.probe("unreadable-include-reported"));
                if canon_loose(f) == canon_loose(&base.join(&case.files[*k].path).to_string_lossy()) || canon_loose(f) == canon_loose(&case.files[*k].path) {
                    Verdict::Pass
                } else {
                    Verdict::Fail { class: "wrong-file-in-error".to_string(), detail: format!("ErrorReadingFile names {:?}, the unreadable file is {}", f, case.files[*k].path) }
                }
            }
            (Err(e), Problem::Malformed(k, line)) => match meta_of(e) {
                Some((l, src)) => {
                    sim::with_core(|c| c.probe("malformed-line-reported"));
                    let want_src = canon(&case.files[*k].path);
                    let got_src = src.clone().map(|x| canon(&x));
                    if l == Some(*line) && got_src.as_deref() == Some(want_src.as_str()) {
                        Verdict::Pass
                    } else {
                        Verdict::Fail { class: "wrong-position-in-parse-error".to_string(), detail: format!("parse error {:?} at line {:?} of {:?}; the malformed line is line {} of {}", e, l, src, line, case.files[*k].path) }
                    }
                }
                None => Verdict::Fail { class: "wrong-error-kind".to_string(), detail: format!("malformed line {} of {} reported as {:?}", line, case.files[*k].path, e) },
            },
            (Err(e), Problem::Unreadable(k)) => Verdict::Fail { class: "wrong-error-kind".to_string(), detail: format!("unreadable file {} reported as {:?}", case.files[*k].path, e) },
        };
    }

    // ---- clause 1: instruction sequence and provenance
    let mut tags = vec![];
    let mut pasted = String::new();
    inline(case, 0, &base, &mut tags, &mut pasted, 0);
    let instructions: Vec<Instruction> = match parsed {
        Ok(i) => i,
        Err(e) => return Verdict::Fail { class: "parse-failed".to_string(), detail: format!("a well-formed tree failed to parse: {}", e) },
    };
    if let Some(v) = check_provenance(case, &instructions, &tags, &canon_files, "") {
        return v;
    }
    // the pasted text must parse to the same instruction kinds at the same indexes
    let pasted_ins = match parser::parse_text(&pasted) {
        Ok(i) => i,
        Err(e) => return Verdict::Inconclusive { reason: format!("pasted text does not parse: {}", e) },
    };
    if pasted_ins.len() != instructions.len() {
        return Verdict::Fail { class: "instruction-count".to_string(), detail: format!("{} instructions from the tree, {} from the pasted text", instructions.len(), pasted_ins.len()) };
    }
    for (i, (a, b)) in instructions.iter().zip(pasted_ins.iter()).enumerate() {
        let same = match (&a.instruction_type, &b.instruction_type) {
            (InstructionType::Script(x), InstructionType::Script(y)) => x.label == y.label && x.output == y.output && x.command == y.command && x.arguments == y.arguments,
            (InstructionType::PreProcess(_), InstructionType::Empty) => true,
            (InstructionType::Empty, InstructionType::Empty) => true,
            _ => false,
        };
        if !same {
            return Verdict::Fail { class: "instruction-content".to_string(), detail: format!("instruction #{} differs: tree {:?} / pasted {:?}", i, a.instruction_type, b.instruction_type) };
        }
    }

    // ---- clause 2: same behaviour as the pasted text
    gen::install_world(&gen::Program { fns: vec![], arrays: vec![], main: vec![], cnd: vec![], fail_leaf: vec![], forever: false, crlf: false }, None);
    // (a tree with a bulk file included many times runs tens of thousands of instructions, twice)
    sim::with_core(|c| c.budget = 5_000_000);
    sim::with_core(|c| c.note("--- run_script_file"));
    let r1 = runner::run_script_file(&root_arg, new_context(), Some(new_env()));
    let log1 = sim::with_core(|c| c.log.clone());
    sim::with_core(|c| c.note("--- run_script (pasted)"));
    let n1 = log1.len();
    let r2 = runner::run_script(&pasted, new_context(), Some(new_env()));
    let log2: Vec<Event> = sim::with_core(|c| c.log[n1..].to_vec());
    let e1 = emits_of(&log1);
    let e2 = emits_of(&log2);
    // ---- clause 3: planted failures report the included file and its own line
    let mut fail_positions: BTreeMap<String, (usize, usize)> = BTreeMap::new();
    for (fi, f) in case.files.iter().enumerate() {
        let mut ln = 0;
        for l in &f.lines {
            match l {
                Line::Fail(m) => {
                    fail_positions.insert(m.clone(), (fi, ln + 1));
                    ln += 4;
                }
                Line::Bulk { n, .. } => ln += *n,
                _ => ln += 1,
            }
        }
    }
    for ev in &e1 {
        if ev.first().map(|x| x == "ERR").unwrap_or(false) && ev.len() >= 4 {
            if let Some((fi, ln)) = fail_positions.get(&ev[1]) {
                sim::with_core(|c| {
                    c.probe("planted-error-reported");
                    if *fi != 0 {
                        c.probe("planted-error-in-included-file");
                    }
                });
                if ev[2] != ln.to_string() || canon(&ev[3]) != canon_files[*fi] {
                    return Verdict::Fail { class: "error-provenance".to_string(), detail: format!("error {} reported at line {} of {:?}; it was raised at line {} of {}", ev[1], ev[2], ev[3], ln, case.files[*fi].path) };
                }
            }
        }
    }
    let strip = |v: &Vec<Vec<String>>| -> Vec<Vec<String>> { v.iter().map(|e| if e.first().map(|x| x == "ERR").unwrap_or(false) { vec![e[0].clone(), e.get(1).cloned().unwrap_or_default()] } else { e.clone() }).collect() };
    if strip(&e1) != strip(&e2) {
        return Verdict::Fail { class: "trace-divergence".to_string(), detail: format!("tree run emitted {:?}, pasted run {:?}", strip(&e1), strip(&e2)) };
    }
    // ---- second round: one nested include is rewritten, everything else stays as it is on disk
    if case.edit_nested {
        let nested: Option<usize> = (1..case.files.len()).flat_map(|i| case.files[i].lines.iter().filter_map(|l| if let Line::Include(refs) = l { refs.first().map(|r| r.file) } else { None }).collect::<Vec<_>>()).next();
        if let Some(b) = nested {
            let mut case2 = case.clone();
            case2.files[b].lines.insert(0, Line::Emit("edited".to_string()));
            let on_disk = if bare { case.files[b].path.strip_prefix("run/").unwrap_or(&case.files[b].path).to_string() } else { case.files[b].path.clone() };
            let _ = std::fs::write(&on_disk, file_text(&case2, b, &base));
            sim::with_core(|c| {
                c.probe("nested-include-edited-then-reparsed");
                c.note(&format!("--- {} rewritten, tree parsed again", case.files[b].path));
            });
            let mut tags2 = vec![];
            let mut pasted2 = String::new();
            inline(&case2, 0, &base, &mut tags2, &mut pasted2, 0);
            match parser::parse_file(&root_arg) {
                Err(e) => return Verdict::Fail { class: "parse-failed".to_string(), detail: format!("after editing a nested include the tree failed to parse: {}", e) },
                Ok(ins2) => {
                    if let Some(v) = check_provenance(&case2, &ins2, &tags2, &canon_files, "after editing a nested include: ") {
                        return v;
                    }
                    if let Some(idx) = tags2.iter().position(|t| t.file == b) {
                        let ok = match &ins2[idx].instruction_type {
                            InstructionType::Script(si) => si.command.as_deref() == Some("emit") && si.arguments.as_ref().map(|a| a == &vec!["edited".to_string()]).unwrap_or(false),
                            _ => false,
                        };
                        if !ok {
                            return Verdict::Fail { class: "stale-include".to_string(), detail: format!("{} was rewritten; parsing the tree again still yields its old first instruction {:?}", case.files[b].path, ins2[idx].instruction_type) };
                        }
                    }
                }
            }
        }
    }
    match (r1, r2) {
        (Ok(c1), Ok(c2)) => {
            let mut v1: BTreeMap<String, String> = c1.variables.into_iter().collect();
            let mut v2: BTreeMap<String, String> = c2.variables.into_iter().collect();
            for v in [&mut v1, &mut v2] {
                v.remove("el");
                v.remove("es");
            }
            if v1 != v2 {
                return Verdict::Fail { class: "final-variables".to_string(), detail: format!("tree run {:?} / pasted run {:?}", v1, v2) };
            }
            Verdict::Pass
        }
        (Err(a), Err(_)) => {
            let _ = a;
            Verdict::Pass
        }
        (a, b) => Verdict::Fail { class: "end-kind".to_string(), detail: format!("tree run ok={} / pasted run ok={}", a.is_ok(), b.is_ok()) },
    }
}

fn canon_loose(p: &str) -> String {
    // for paths that cannot be canonicalised (missing files): normalise lexically
    let mut parts: Vec<&str> = vec![];
    for c in p.split('/') {
        match c {
            "" | "." => {}
            ".." => {
                parts.pop();
            }
            x => parts.push(x),
        }
    }
    parts.join("/")
}

pub struct C14;

fn gen_case(rng: &mut Rng) -> Case {
    let max_files = if rng.chance(1, 10) { 7 } else { 5 };
    let n_files = 1 + rng.usize(max_files);
    let mut paths: Vec<&str> = PATHS[1..].to_vec();
    rng.shuffle(&mut paths);
    let mut files: Vec<FileSpec> = vec![];
    let mut emit_id = 0;
    let mut fail_id = 0;
    // depth of each file in the include tree (for the depth bound)
    let mut depth = vec![0usize; n_files];
    let mut labels: Vec<String> = vec![];
    for i in 0..n_files {
        let path = if i == 0 { PATHS[0].to_string() } else { paths[i - 1].to_string() };
        let n_lines = 1 + rng.usize(7);
        let mut lines = vec![];
        let mut included_here = false;
        for k in 0..n_lines {
            let l = match rng.below(14) {
                0..=4 => {
                    emit_id += 1;
                    Line::Emit(format!("e{}", emit_id))
                }
                5 => Line::Set(format!("v{}", rng.below(3)), rng.pick(&["a", "b c", "1", ""]).to_string()),
                6 => Line::Blank,
                7 => Line::Comment,
                8 => {
                    let lb = format!("l{}_{}", i, k);
                    labels.push(lb.clone());
                    Line::Label(lb)
                }
                9 => {
                    fail_id += 1;
                    Line::Fail(format!("boom{}", fail_id))
                }
                _ => {
                    // include later files only (acyclic), depth <= 4, fan-out <= 3
                    let later: Vec<usize> = (i + 1..n_files).collect();
                    if later.is_empty() || depth[i] >= 6 {
                        emit_id += 1;
                        Line::Emit(format!("e{}", emit_id))
                    } else {
                        // one directive in twenty lists many files (the same ones repeatedly when few exist)
                        let fan = if rng.chance(1, 20) { 8 + rng.usize(6) } else { 1 + rng.usize(3.min(later.len())) };
                        let refs: Vec<IncRef> = (0..fan)
                            .map(|_| {
                                let f = *rng.pick(&later);
                                depth[f] = depth[f].max(depth[i] + 1);
                                IncRef { file: f, absolute: rng.chance(1, 4) }
                            })
                            .collect();
                        included_here = true;
                        Line::Include(refs)
                    }
                }
            };
            lines.push(l);
        }
        let _ = included_here;
        // (a file whose last line is blank cannot drop its terminator without losing that line)
        let ends_blank = matches!(lines.last(), Some(Line::Blank));
        let shebang = rng.chance(1, 6);
        if shebang {
            lines.insert(0, Line::Comment);
        }
        files.push(FileSpec { path, lines, crlf: rng.chance(1, 10), no_final_newline: !ends_blank && rng.chance(1, 8), shebang });
    }
    // make sure the root includes something when there are other files
    if n_files > 1 && !files[0].lines.iter().any(|l| matches!(l, Line::Include(_))) {
        let pos = rng.usize(files[0].lines.len() + 1);
        files[0].lines.insert(pos, Line::Include(vec![IncRef { file: 1, absolute: false }]));
    }
    // one tree in thirty carries a chain of 17-40 files, each including the next (acyclic, far deeper than the trees
    // above): what is pasted at the bottom must arrive like everything else
    if rng.chance(1, 30) {
        let first = files.len();
        let k = 17 + rng.usize(24);
        for j in 0..k {
            let mut lines = vec![];
            emit_id += 1;
            lines.push(Line::Emit(format!("e{}", emit_id)));
            if j + 1 < k {
                lines.push(Line::Include(vec![IncRef { file: first + j + 1, absolute: rng.chance(1, 6) }]));
                emit_id += 1;
                lines.push(Line::Emit(format!("e{}", emit_id)));
            } else if rng.chance(1, 2) {
                fail_id += 1;
                lines.push(Line::Fail(format!("boom{}", fail_id)));
            }
            files.push(FileSpec { path: format!("run/deep/c{:02}.ds", j), lines, crlf: false, no_final_newline: false, shebang: false });
        }
        let pos = rng.usize(files[0].lines.len() + 1);
        files[0].lines.insert(pos, Line::Include(vec![IncRef { file: first, absolute: false }]));
    }
    let n_files = files.len();
    // a forward goto to a label that comes later in the root file only (keeps both runs terminating)
    if rng.chance(1, 4) {
        let root_labels: Vec<(usize, String)> = files[0].lines.iter().enumerate().filter_map(|(k, l)| if let Line::Label(lb) = l { Some((k, lb.clone())) } else { None }).collect();
        if let Some((k, lb)) = root_labels.last().cloned() {
            let pos = rng.usize(k + 1);
            files[0].lines.insert(pos, Line::Goto(lb));
        }
    }
    let fault = match rng.below(10) {
        0 if n_files > 1 => Some(FileFault::Missing(1 + rng.usize(n_files - 1))),
        1 if n_files > 1 => Some(FileFault::IsDirectory(1 + rng.usize(n_files - 1))),
        2 => Some(FileFault::InvalidUtf8(rng.usize(n_files))),
        3 => {
            let f = rng.usize(n_files);
            let pos = rng.usize(files[f].lines.len() + 1);
            files[f].lines.insert(pos, Line::Malformed(rng.below(3) as u8));
            None
        }
        _ => None,
    };
    // one tree in forty carries a file of 80-200 KiB
    if rng.chance(1, 40) {
        let f = rng.usize(n_files);
        let pos = rng.usize(files[f].lines.len() + 1);
        files[f].lines.insert(pos, Line::Bulk { n: 1000 + rng.usize(1500), pad: rng.usize(5) });
    }
    let root_absolute = rng.chance(1, 4);
    let edit_nested = rng.chance(1, 3);
    let fifo = if n_files > 1 && fault.is_none() && !edit_nested && rng.chance(1, 25) { Some(1 + rng.usize(n_files - 1)) } else { None };
    Case { entropy: rng.next_u64(), files, root_absolute, fault, root_bare: !root_absolute && rng.chance(1, 5), edit_nested, link_abs: rng.chance(1, 3), fifo }
}

/// is file k reachable from the root through include directives?
fn reachable(case: &Case, k: usize) -> bool {
    fn walk(case: &Case, f: usize, k: usize, depth: usize) -> bool {
        if f == k {
            return true;
        }
        if depth > 64 {
            return false;
        }
        case.files[f].lines.iter().any(|l| if let Line::Include(refs) = l { refs.iter().any(|r| walk(case, r.file, k, depth + 1)) } else { false })
    }
    walk(case, 0, k, 0)
}

impl Prop for C14 {
    fn id(&self) -> &'static str {
        "C14"
    }
    fn info(&self) -> PropInfo {
        PropInfo {
            level: "exploration",
            rule: "seeded acyclic include trees of 1-6 files in nested directories (names with spaces and non-ASCII) written to the jail's tmpfs: directives at first/middle/last line listing 1-3 files (the same file possibly twice) by relative (incl. ..) and absolute path; bodies of uniquely numbered emit lines, assignments, blanks, comments, labels, a forward goto and planted failing commands followed by last-error probes; fault variants: an included file missing / a directory / not UTF-8, or a malformed line at a random position of a random file. Oracle: a textual inliner gives the expected (file,line) tag of every instruction; the tree is run with run_script_file and the pasted text with run_script and both traces / final variables must agree; planted errors must report their own file and line; fault variants must fail the whole parse naming that file / that line. Non-trivial = >= 3 steps (and a fault fired in fault runs); distinct = distinct abstract traces",
            real: &["duckscript::parser (parse_file, parse_text)", "preprocessor::include_files_preprocessor", "runner::run_script_file / run_script", "SDK error commands (last-error probes), goto, set", "the kernel's tmpfs"],
            stub: &["emit", "hfail"],
            assumptions: &["files are compared after canonicalisation, not by spelling", "include cycles are out of scope (C07's include-cycle probe)"],
            needs_jail: true,
            needs_duck: false,
            expected_probes: &["planted-error-in-included-file", "unreadable-include-reported", "malformed-line-reported", "same-file-twice", "dotdot-relative-path", "absolute-include-path", "nested-include-not-at-line-1", "root-by-bare-file-name", "nested-include-edited-then-reparsed"],
        }
    }
    fn runs(&self, tier: &str) -> u64 {
        if tier == "quick" { 20_000 } else { 1_000_000 }
    }
    fn generate(&self, rng: &mut Rng, _avoid: &[String]) -> Value {
        serde_json::to_value(gen_case(rng)).unwrap()
    }
    fn execute(&self, case: &Value, env: &WorkerEnv) -> Outcome {
        let mut case: Case = match serde_json::from_value(case.clone()) {
            Ok(c) => c,
            Err(e) => return Outcome::collect(Verdict::Inconclusive { reason: format!("bad case: {}", e) }, false),
        };
        if !env.chrooted {
            let _ = std::env::set_current_dir(&env.jail_root);
        }
        // a fault on a file nobody includes is no fault
        if let Some(FileFault::Missing(k)) | Some(FileFault::IsDirectory(k)) | Some(FileFault::InvalidUtf8(k)) = &case.fault {
            if !reachable(&case, *k) {
                case.fault = None;
            }
        }
        // probes on the shape
        for (i, f) in case.files.iter().enumerate() {
            for (k, l) in f.lines.iter().enumerate() {
                if let Line::Include(refs) = l {
                    sim::with_core(|c| {
                        let mut seen = vec![];
                        for r in refs {
                            if seen.contains(&r.file) {
                                c.probe("same-file-twice");
                            }
                            seen.push(r.file);
                            if r.absolute {
                                c.probe("absolute-include-path");
                            } else if relative_from(&dir_of(&f.path), &case.files[r.file].path).starts_with("..") {
                                c.probe("dotdot-relative-path");
                            }
                        }
                        if i > 0 && k > 0 {
                            c.probe("nested-include-not-at-line-1");
                        }
                    });
                }
            }
        }
        let fault_config = case.fault.is_some() || case.files.iter().any(|f| f.lines.iter().any(|l| matches!(l, Line::Malformed(_))));
        FIFO_STALLED.store(false, std::sync::atomic::Ordering::SeqCst);
        let res = std::panic::catch_unwind(std::panic::AssertUnwindSafe(|| run_case(&case, env)));
        let res = if FIFO_STALLED.load(std::sync::atomic::Ordering::SeqCst) {
            Ok(Verdict::Inconclusive { reason: "the named pipe's feeder waited 10 s in vain for the reader to close: harness parties out of step".to_string() })
        } else {
            res
        };
        // (a run may have moved into the script's directory)
        if env.chrooted {
            let _ = std::env::set_current_dir("/");
        } else {
            let _ = std::env::set_current_dir(&env.jail_root);
        }
        let _ = std::fs::remove_dir_all(ROOT);
        let verdict = match res {
            Ok(v) => v,
            Err(_) => {
                let p = sim::take_panic().unwrap_or_default();
                Verdict::Fail { class: format!("panic@{}", sim::panic_site(&p)), detail: p }
            }
        };
        if fault_config && first_malformed(&case, 0, 0).is_some() {
            sim::with_core(|c| c.fire("F8", "malformed line in an included file"));
        }
        Outcome::collect(verdict, false)
    }
    fn shrink(&self, case: &Value) -> Vec<Value> {
        let case: Case = match serde_json::from_value(case.clone()) {
            Ok(c) => c,
            Err(_) => return vec![],
        };
        let mut out: Vec<Case> = vec![];
        if case.fault.is_some() {
            let mut c = case.clone();
            c.fault = None;
            out.push(c);
        }
        if case.root_absolute {
            let mut c = case.clone();
            c.root_absolute = false;
            out.push(c);
        }
        for f in 0..case.files.len() {
            for k in (0..case.files[f].lines.len()).rev() {
                let mut c = case.clone();
                c.files[f].lines.remove(k);
                out.push(c);
            }
            for k in 0..case.files[f].lines.len() {
                if let Line::Include(refs) = &case.files[f].lines[k] {
                    if refs.len() > 1 {
                        for r in 0..refs.len() {
                            let mut v = refs.clone();
                            v.remove(r);
                            let mut c = case.clone();
                            c.files[f].lines[k] = Line::Include(v);
                            out.push(c);
                        }
                    }
                    for r in 0..refs.len() {
                        if refs[r].absolute {
                            let mut v = refs.clone();
                            v[r].absolute = false;
                            let mut c = case.clone();
                            c.files[f].lines[k] = Line::Include(v);
                            out.push(c);
                        }
                    }
                }
            }
        }
        if case.entropy != 0 {
            let mut c = case.clone();
            c.entropy = 0;
            out.push(c);
        }
        out.into_iter().filter(|c| *c != case).map(|c| serde_json::to_value(c).unwrap()).collect()
    }
}
