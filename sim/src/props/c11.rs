//! C11 - variable commands and the scope stack vs a map and a stack of maps (Appendix D.3).

use crate::prop::{Outcome, Prop, PropInfo, Verdict, WorkerEnv};
use crate::props::ops::{s, OpWorld, Out, Want};
use crate::rng::Rng;
use crate::sim;
use serde::{Deserialize, Serialize};
use serde_json::Value;
use std::collections::{BTreeMap, BTreeSet};

#[derive(Serialize, Deserialize, Clone, Debug, PartialEq)]
pub enum Op {
    Set(String),
    /// `set v1 or v2 or ...`: the first truthy value, else the last one
    SetOr(Vec<String>),
    Unset(Vec<String>),
    SetByName(String, Option<String>),
    GetByName(String),
    IsDefined(String),
    GetAllVarNames,
    UnsetAllVars(Option<String>),
    ClearScope(String),
    Push(Option<Vec<String>>),
    Pop(Option<Vec<String>>),
    /// a command invoked without its mandatory argument
    Missing(String),
    /// the embedder clones the context (as `Context::clone` does) and keeps the copy aside
    Fork,
    /// ... and later continues on the other copy
    Swap,
}

#[derive(Serialize, Deserialize, Clone, Debug, PartialEq)]
pub struct Case {
    pub entropy: u64,
    pub init: Vec<(String, String)>,
    pub ops: Vec<Op>,
}

// ("p::" is exactly a scope prefix; "b#1" and "q r" are names that a script-level re-parse would cut)
// ("n\u{e9}" / "n\u{e9}x" / "\u{e9}": names whose byte length and character count differ, also used as prefixes)
const NAMES: [&str; 14] = ["a", "b", "c", "p::x", "p::y", "q", "p", "ap", "p::", "b#1", "q r", "n\u{e9}", "n\u{e9}x", "\u{e9}"];
// ("or", "and", "not": as VALUES of variables these are plain text)
const VALUES: [&str; 13] = ["1", "", "hello", "two words", "h\u{e9}llo \u{6f22}", "false", "handle:abcdefghij0123456789", "p::x", "--copy", "a", "or", "and", "not"];

#[derive(Clone, Debug, Default)]
struct Frame {
    vars: BTreeMap<String, String>,
    unknown: BTreeSet<String>,
}

pub struct C11;

/// a value: mostly from the small pool (so that equal values meet), sometimes one that a text-based
/// implementation would mangle
fn gen_value(rng: &mut Rng) -> String {
    match rng.below(40) {
        0 => "x".repeat(3000 + rng.usize(3000)),
        1 => "line\r\nbreak\n".to_string(),
        // (no ${..} / %{..}: the operations go through the runner's expansion, which is not this property)
        2 => "$b {b} $".to_string(),
        3 => "% {c} 100%".to_string(),
        4 => "\"quoted\" # not a comment".to_string(),
        5 => " padded ".to_string(),
        _ => rng.pick(&VALUES).to_string(),
    }
}

fn gen_names(rng: &mut Rng) -> Vec<String> {
    let n = rng.usize(4);
    (0..n).map(|_| rng.pick(&NAMES).to_string()).collect()
}

fn gen_op(rng: &mut Rng) -> Op {
    match rng.below(20) {
        0 => {
            if rng.chance(1, 2) {
                Op::Set(gen_value(rng))
            } else {
                Op::SetOr((0..2 + rng.usize(3)).map(|_| rng.pick(&["", "0", "false", "NO", "a", "two words", "False"]).to_string()).collect())
            }
        }
        1 | 2 => Op::Unset((0..1 + rng.usize(3)).map(|_| rng.pick(&NAMES).to_string()).collect()),
        3 | 4 | 5 | 6 => Op::SetByName(rng.pick(&NAMES).to_string(), if rng.chance(4, 5) { Some(gen_value(rng)) } else { None }),
        7 | 8 => Op::GetByName(rng.pick(&NAMES).to_string()),
        9 => Op::IsDefined(rng.pick(&NAMES).to_string()),
        10 => Op::GetAllVarNames,
        11 => Op::UnsetAllVars(if rng.chance(3, 4) { Some(rng.pick(&["p::", "p", "a", "zz", "", "::", "x", "n\u{e9}", "\u{e9}", "n"]).to_string()) } else { None }),
        12 => Op::ClearScope(rng.pick(&["p", "a", "q", "p::x", "ap", ""]).to_string()),
        13 | 14 | 15 => Op::Push(if rng.chance(2, 3) { Some(gen_names(rng)) } else { None }),
        16 | 17 | 18 => Op::Pop(if rng.chance(2, 3) { Some(gen_names(rng)) } else { None }),
        _ => match rng.below(4) {
            0 => Op::Fork,
            1 | 2 => Op::Swap,
            _ => Op::Missing(rng.pick(&["set_by_name", "get_by_name", "is_defined", "clear_scope"]).to_string()),
        },
    }
}

fn compare(world: &OpWorld, f: &Frame, after: &str) -> Option<String> {
    for (k, v) in world.ctx.variables.iter() {
        if f.unknown.contains(k) {
            continue;
        }
        match f.vars.get(k) {
            Some(m) if m == v => {}
            Some(m) => return Some(format!("after {}: variable {} = {:?}, model {:?}", after, k, v, m)),
            None => return Some(format!("after {}: variable {} = {:?} is defined, model has it undefined", after, k, v)),
        }
    }
    for (k, m) in f.vars.iter() {
        if !f.unknown.contains(k) && !world.ctx.variables.contains_key(k) {
            return Some(format!("after {}: variable {} is undefined, model {:?}", after, k, m));
        }
    }
    None
}

fn run_case(case: &Case) -> Verdict {
    let mut world = OpWorld::new_sdk();
    let mut cur = Frame::default();
    let mut stack: Vec<Frame> = vec![];
    let mut other: Option<(OpWorld, Frame, Vec<Frame>)> = None;
    for (k, v) in &case.init {
        world.ctx.variables.insert(k.clone(), v.clone());
        cur.vars.insert(k.clone(), v.clone());
    }
    for (i, op) in case.ops.iter().enumerate() {
        let label = format!("op #{} {:?}", i, op);
        match op {
            Op::Set(v) => {
                world.op("set", &[v.clone()], &Want::Val(v.clone()), &[v.clone()]);
            }
            Op::SetOr(vals) => {
                let mut args: Vec<String> = vec![];
                for (k, v) in vals.iter().enumerate() {
                    if k > 0 {
                        args.push(s("or"));
                    }
                    args.push(v.clone());
                }
                let falsy = |v: &String| {
                    let l = v.to_lowercase();
                    l.is_empty() || l == "0" || l == "false" || l == "no"
                };
                let want = vals.iter().find(|v| !falsy(v)).or(vals.last()).cloned().unwrap_or_default();
                world.op("set", &args, &Want::Val(want), &args);
            }
            Op::Unset(names) => {
                world.op("unset", names, &Want::None, names);
                for n in names {
                    cur.vars.remove(n);
                    cur.unknown.remove(n);
                }
            }
            Op::SetByName(n, v) => match v {
                Some(v) => {
                    world.op("set_by_name", &[n.clone(), v.clone()], &Want::Val(v.clone()), &[n.clone(), v.clone()]);
                    cur.vars.insert(n.clone(), v.clone());
                    cur.unknown.remove(n);
                }
                None => {
                    world.op("set_by_name", &[n.clone()], &Want::None, &[n.clone()]);
                    cur.vars.remove(n);
                    cur.unknown.remove(n);
                }
            },
            Op::GetByName(n) => {
                let want = if cur.unknown.contains(n) {
                    Want::Any
                } else {
                    match cur.vars.get(n) {
                        Some(v) => Want::Val(v.clone()),
                        None => Want::None,
                    }
                };
                world.op("get_by_name", &[n.clone()], &want, &[n.clone()]);
            }
            Op::IsDefined(n) => {
                let want = if cur.unknown.contains(n) {
                    Want::TrueOrFalse
                } else if cur.vars.contains_key(n) {
                    Want::True
                } else {
                    Want::False
                };
                world.op("is_defined", &[n.clone()], &want, &[n.clone()]);
            }
            Op::GetAllVarNames => {
                let got = world.op("get_all_var_names", &[], &Want::Handle, &[]);
                if let Out::Val(h) = got {
                    let mut names: Vec<String> = vec![];
                    let len = world.run("array_length", &[h.clone()]);
                    let n: usize = len.val().and_then(|x| x.parse().ok()).unwrap_or(usize::MAX);
                    if n == usize::MAX {
                        sim::with_core(|c| c.violate("output-mismatch", format!("{}: the returned handle is not a readable array ({})", label, len.show())));
                    } else {
                        for idx in 0..n {
                            if let Out::Val(v) = world.run("array_get", &[h.clone(), idx.to_string()]) {
                                names.push(v);
                            }
                        }
                        let real: BTreeSet<String> = names.iter().cloned().collect();
                        if real.len() != names.len() {
                            sim::with_core(|c| c.violate("output-mismatch", format!("{}: duplicate names {:?}", label, names)));
                        }
                        let must: BTreeSet<String> = cur.vars.keys().filter(|k| !cur.unknown.contains(*k)).cloned().collect();
                        let may: BTreeSet<String> = cur.vars.keys().cloned().chain(cur.unknown.iter().cloned()).collect();
                        if !must.is_subset(&real) || !real.is_subset(&may) {
                            sim::with_core(|c| c.violate("output-mismatch", format!("{}: names {:?}, model {:?} (unconstrained: {:?})", label, real, must, cur.unknown)));
                        }
                    }
                    world.run("release", &[h]);
                }
            }
            Op::UnsetAllVars(prefix) => match prefix {
                Some(p) => {
                    world.op("unset_all_vars", &[s("--prefix"), p.clone()], &Want::None, &[s("--prefix"), p.clone()]);
                    cur.vars.retain(|k, _| !k.starts_with(p.as_str()));
                    cur.unknown.retain(|k| !k.starts_with(p.as_str()));
                    sim::with_core(|c| c.probe(if cur.vars.is_empty() { "prefix-clear-hit-all" } else { "prefix-clear-partial" }));
                }
                None => {
                    world.op("unset_all_vars", &[], &Want::None, &[]);
                    cur.vars.clear();
                    cur.unknown.clear();
                }
            },
            Op::ClearScope(sc) => {
                world.op("clear_scope", &[sc.clone()], &Want::None, &[sc.clone()]);
                let pre = format!("{}::", sc);
                cur.vars.retain(|k, _| !k.starts_with(&pre));
                cur.unknown.retain(|k| !k.starts_with(&pre));
            }
            Op::Push(copy) => {
                let mut args = vec![];
                if let Some(names) = copy {
                    args.push(s("--copy"));
                    args.extend(names.iter().cloned());
                }
                // the help gives no return value for a successful push: unconstrained, but it must not fail
                let got = world.op("scope_push_stack", &args, &Want::Any, &args);
                if matches!(got, Out::Error(_)) {
                    sim::with_core(|c| c.violate("output-mismatch", format!("{}: push failed: {}", label, got.show())));
                }
                let saved = cur.clone();
                let mut next = Frame::default();
                if let Some(names) = copy {
                    for n in names {
                        if saved.unknown.contains(n) {
                            next.unknown.insert(n.clone());
                        } else if let Some(v) = saved.vars.get(n) {
                            next.vars.insert(n.clone(), v.clone());
                        } else {
                            sim::with_core(|c| c.probe("push-copy-undefined"));
                        }
                    }
                    let distinct: BTreeSet<&String> = names.iter().collect();
                    if distinct.len() != names.len() {
                        sim::with_core(|c| c.probe("copy-same-name-twice"));
                    }
                }
                stack.push(saved);
                if stack.len() >= 5 {
                    sim::with_core(|c| c.probe("nesting-depth-5"));
                }
                cur = next;
            }
            Op::Pop(copy) => {
                let mut args = vec![];
                if let Some(names) = copy {
                    args.push(s("--copy"));
                    args.extend(names.iter().cloned());
                }
                if stack.is_empty() {
                    // popping an empty stack is an error that changes nothing
                    world.op("scope_pop_stack", &args, &Want::Fail, &args);
                    sim::with_core(|c| {
                        c.probe("pop-on-empty");
                        *c.fired.entry("F11".to_string()).or_insert(0) += 1;
                    });
                } else {
                    let got = world.op("scope_pop_stack", &args, &Want::Any, &args);
                    if matches!(got, Out::Error(_)) {
                        sim::with_core(|c| c.violate("output-mismatch", format!("{}: pop of a non-empty stack failed: {}", label, got.show())));
                    }
                    let mut restored = stack.pop().unwrap();
                    if let Some(names) = copy {
                        for n in names {
                            if cur.unknown.contains(n) {
                                restored.unknown.insert(n.clone());
                            } else if let Some(v) = cur.vars.get(n) {
                                restored.vars.insert(n.clone(), v.clone());
                                restored.unknown.remove(n);
                            } else {
                                // undefined when copied on pop: only the absence of a failure and the rest of the map are constrained
                                restored.unknown.insert(n.clone());
                                sim::with_core(|c| c.probe("pop-copy-undefined"));
                            }
                        }
                    }
                    cur = restored;
                }
            }
            Op::Fork => {
                other = Some((world.fork(), cur.clone(), stack.clone()));
                sim::with_core(|c| c.probe("context-cloned"));
            }
            Op::Swap => {
                if let Some((w2, c2, s2)) = other.take() {
                    let old = (std::mem::replace(&mut world, w2), std::mem::replace(&mut cur, c2), std::mem::replace(&mut stack, s2));
                    other = Some(old);
                    sim::with_core(|c| c.probe("continued-on-the-other-copy"));
                }
            }
            Op::Missing(cmd) => {
                let got = world.op(cmd, &[], &Want::Any, &[]);
                let _ = got;
                sim::with_core(|c| *c.fired.entry("F11".to_string()).or_insert(0) += 1);
            }
        }
        if let Some(d) = compare(&world, &cur, &label) {
            sim::with_core(|c| c.violate("state-mismatch", d));
        }
        if sim::with_core(|c| c.violation.is_some()) {
            break;
        }
    }
    match sim::with_core(|c| c.violation.clone()) {
        Some((class, detail)) => Verdict::Fail { class, detail },
        None => Verdict::Pass,
    }
}

impl Prop for C11 {
    fn id(&self) -> &'static str {
        "C11"
    }
    fn info(&self) -> PropInfo {
        PropInfo {
            level: "exploration",
            rule: "seeded histories of 1-40 operations (set, unset, set_by_name, get_by_name, is_defined, get_all_var_names, unset_all_vars [--prefix], clear_scope, scope_push_stack / scope_pop_stack [--copy ...], commands missing their argument) over eight names (two under p::, one with p inside) and ten values, push/pop nesting unbounded but biased shallow; each operation is one run_instruction call; output class and the ENTIRE variable map are compared with a map + stack of maps after every step. Faults: refused operations (pop on empty, --copy of undefined / duplicate names, missing arguments), hash order. Non-trivial = >= 3 operations; distinct = distinct abstract traces (operation, outcome class)",
            real: &["SDK var::*, scope::* commands", "utils::scope", "types::scope", "AliasCommand (unset is script-implemented)", "runner::run_instruction"],
            stub: &["none (streams in memory)"],
            assumptions: &["thin fault space: sequential refinement; the only nondeterminism is hash order", "values free of $ % \\ (they would be interpreted by argument binding, which is C02's matter)", "success output of push/pop unconstrained (help gives none)"],
            needs_jail: false,
            needs_duck: false,
            expected_probes: &["pop-on-empty", "push-copy-undefined", "pop-copy-undefined", "copy-same-name-twice", "nesting-depth-5", "prefix-clear-hit-all", "prefix-clear-partial", "context-cloned", "continued-on-the-other-copy"],
        }
    }
    fn runs(&self, tier: &str) -> u64 {
        if tier == "quick" { 40_000 } else { 2_000_000 }
    }
    fn generate(&self, rng: &mut Rng, _avoid: &[String]) -> Value {
        let n = match rng.below(3) {
            0 => 1 + rng.usize(5),
            1 => 4 + rng.usize(12),
            _ => 10 + rng.usize(30),
        };
        let n_init = rng.usize(5);
        let mut init: Vec<(String, String)> = (0..n_init).map(|_| (rng.pick(&NAMES).to_string(), gen_value(rng))).collect();
        let mut ops: Vec<Op> = (0..n).map(|_| gen_op(rng)).collect();
        if rng.chance(1, 20) {
            // big mode: more than 16 variables, a long value, a stack deeper than 5 with long copy lists
            for k in 0..17 + rng.usize(10) {
                init.push((format!("w{}", k), format!("val{}", k)));
            }
            init.push(("longv".to_string(), "abcdefghij".repeat(8)));
            // copy lists: 12 names in order, or (one time in three) 33-70 names in no particular order with repeats
            let copy: Vec<String> = if rng.chance(1, 3) {
                for k in 27..80 {
                    init.push((format!("w{}", k), format!("val{}", k)));
                }
                let mut v: Vec<String> = (0..33 + rng.usize(38)).map(|_| format!("w{}", rng.usize(80))).collect();
                rng.shuffle(&mut v);
                v
            } else {
                (0..12).map(|k| format!("w{}", k)).collect()
            };
            let depth = if rng.chance(1, 3) { 65 + rng.usize(70) } else { 6 + rng.usize(4) };
            let mut pre: Vec<Op> = (0..depth).map(|_| Op::Push(Some(copy.clone()))).collect();
            pre.extend(ops.drain(..));
            for _ in 0..depth {
                pre.push(Op::Pop(Some(vec!["w3".to_string(), "longv".to_string(), "a".to_string()])));
            }
            ops = pre;
        }
        let case = Case { entropy: rng.next_u64(), init, ops };
        serde_json::to_value(case).unwrap()
    }
    fn execute(&self, case: &Value, _env: &WorkerEnv) -> Outcome {
        let case: Case = match serde_json::from_value(case.clone()) {
            Ok(c) => c,
            Err(e) => return Outcome::collect(Verdict::Inconclusive { reason: format!("bad case: {}", e) }, false),
        };
        let res = std::panic::catch_unwind(std::panic::AssertUnwindSafe(|| run_case(&case)));
        let verdict = match res {
            Ok(v) => v,
            Err(_) => {
                let p = sim::take_panic().unwrap_or_default();
                Verdict::Fail { class: format!("panic@{}", sim::panic_site(&p)), detail: p }
            }
        };
        Outcome::collect(verdict, false)
    }
    fn shrink(&self, case: &Value) -> Vec<Value> {
        let case: Case = match serde_json::from_value(case.clone()) {
            Ok(c) => c,
            Err(_) => return vec![],
        };
        let mut out = vec![];
        let n = case.ops.len();
        if n > 3 {
            let mut c = case.clone();
            c.ops.truncate(n / 2);
            out.push(c);
        }
        for i in (0..n).rev() {
            let mut c = case.clone();
            c.ops.remove(i);
            out.push(c);
        }
        for i in 0..case.init.len() {
            let mut c = case.clone();
            c.init.remove(i);
            out.push(c);
        }
        for i in 0..n {
            match &case.ops[i] {
                Op::Push(Some(names)) | Op::Pop(Some(names)) if !names.is_empty() => {
                    for k in 0..names.len() {
                        let mut v = names.clone();
                        v.remove(k);
                        let mut c = case.clone();
                        c.ops[i] = if matches!(case.ops[i], Op::Push(_)) { Op::Push(Some(v)) } else { Op::Pop(Some(v)) };
                        out.push(c);
                    }
                }
                Op::Unset(names) if names.len() > 1 => {
                    for k in 0..names.len() {
                        let mut v = names.clone();
                        v.remove(k);
                        let mut c = case.clone();
                        c.ops[i] = Op::Unset(v);
                        out.push(c);
                    }
                }
                _ => {}
            }
        }
        if case.entropy != 0 {
            let mut c = case.clone();
            c.entropy = 0;
            out.push(c);
        }
        out.into_iter().map(|c| serde_json::to_value(c).unwrap()).collect()
    }
}
