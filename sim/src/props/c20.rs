//! C20 - the command-line tool reports what the library decided.
//! A second party (shell / CI) sees only argv -> stdout + exit status; the script arrives through a
//! file that may be missing, a directory or not UTF-8. Differential against the in-process library
//! under the same directory.

use crate::prop::{Outcome, Prop, PropInfo, Verdict, WorkerEnv};
use crate::rng::Rng;
use crate::sim::{self, Event, SimWriter};
use duckscript::parser;
use duckscript::runner;
use duckscript::types::env::Env;
use duckscript::types::instruction::InstructionType;
use duckscript::types::runtime::Context;
use serde::{Deserialize, Serialize};
use serde_json::Value;
use std::process::{Command, Stdio};

#[derive(Serialize, Deserialize, Clone, Debug, PartialEq)]
pub enum Form {
    File,
    FileWithExtraArg,
    EvalShort,
    EvalLong,
    LintShort,
    LintLong,
    Version,
    Help,
    HelpShort,
}

#[derive(Serialize, Deserialize, Clone, Debug, PartialEq)]
pub enum FileFault {
    Missing,
    Directory,
    InvalidUtf8,
}

#[derive(Serialize, Deserialize, Clone, Debug, PartialEq)]
pub struct Case {
    pub entropy: u64,
    pub form: Form,
    pub lines: Vec<String>,
    pub fault: Option<FileFault>,
    /// lines of a file `run/inc/part.ds` that the script includes by a path relative to its own directory
    /// (the process itself works one directory above)
    #[serde(default)]
    pub included: Option<Vec<String>>,
    /// the script is stored under a file name that is not valid UTF-8
    #[serde(default)]
    pub odd_name: bool,
    /// nobody reads the executable's standard output: its write end is a pipe whose reader is gone (F16). Only for
    /// the forms that run no script (lint, --version, --help): what a script's own output commands do then is not
    /// this property's matter
    #[serde(default)]
    pub closed_stdout: bool,
}

const SCRIPT: &str = "run/script.ds";

fn gen_line(rng: &mut Rng, upper: bool, depth: &mut u32) -> String {
    let word = |rng: &mut Rng| rng.pick(&["hello", "a b", "x", "42", "h\u{e9}llo", "", "done"]).to_string();
    let q = |s: String| if s.is_empty() || s.contains(' ') { format!("\"{}\"", s) } else { s };
    let up = |rng: &mut Rng, s: &str| -> String {
        if upper && rng.chance(1, 5) {
            let mut c = s.chars();
            match c.next() {
                Some(f) => f.to_uppercase().collect::<String>() + c.as_str(),
                None => String::new(),
            }
        } else {
            s.to_string()
        }
    };
    match rng.below(24) {
        0..=5 => format!("echo {} {}", q(word(rng)), q(word(rng))),
        6 | 7 => {
            // (names with letters outside ASCII: their upper-case forms are upper case too)
            let name = *rng.pick(&["out", "value", "x1", "\u{e9}t\u{e9}", "\u{434}\u{43e}\u{43c}"]);
            format!("{} = set {}", up(rng, name), q(word(rng)))
        }
        8 => format!("echo ${{{}}}", rng.pick(&["out", "value", "x1", "undefined"])),
        9 => {
            let name = *rng.pick(&["start", "mid", "fin", "\u{e9}cho", "\u{3c9}mega"]);
            format!(":{} echo label", up(rng, name))
        }
        10 => format!("{} one two", up(rng, "println")),
        11 => match rng.below(3) {
            // an output variable (and maybe a label) without a command
            0 => {
                let name = *rng.pick(&["out", "value", "x1"]);
                format!("{} =", up(rng, name))
            }
            1 => {
                let lb = *rng.pick(&["start", "mid", "fin"]);
                let name = *rng.pick(&["out", "value"]);
                format!(":{} {} =", up(rng, lb), up(rng, name))
            }
            _ => "".to_string(),
        },
        12 => "# a comment".to_string(),
        13 => {
            *depth += 1;
            format!("if {}", rng.pick(&["true", "false", "${out}", "0"]))
        }
        14 => {
            if *depth > 0 {
                *depth -= 1;
                "end".to_string()
            } else {
                "echo no block".to_string()
            }
        }
        15 => format!("exit {}", rng.pick(&["0", "1", "3", "-2", "abc", "", "255", "256", "257", "512", "-256", "65536", "2147483647", "2147483648", "-2147483649", "4294967296", "99999999999", "+7", "00"])),
        16 => format!("unknown_command_{} a", rng.below(3)),
        17 => format!("trigger_error {}", q(word(rng))),
        18 => format!("exit_on_error {}", rng.pick(&["true", "false"])),
        19 => format!("assert {}", rng.pick(&["true", "false", "${out}"])),
        20 => format!("assert_eq {} {}", rng.pick(&["1", "a"]), rng.pick(&["1", "b"])),
        21 => match rng.below(4) {
            0 => "echo \"unterminated".to_string(),
            1 => "echo bad\\qescape".to_string(),
            2 => "!unknown_preprocessor x".to_string(),
            _ => "x = \"q\" echo".to_string(),
        },
        22 => format!("print {}", q(word(rng))),
        _ => format!("{} = calc {} + {}", up(rng, "sum"), rng.below(100), rng.below(100)),
    }
}

fn gen_case(rng: &mut Rng) -> Case {
    let form = match rng.below(20) {
        0..=6 => Form::File,
        7 => Form::FileWithExtraArg,
        8..=10 => Form::EvalShort,
        11 | 12 => Form::EvalLong,
        13..=15 => Form::LintShort,
        16 | 17 => Form::LintLong,
        18 => Form::Version,
        _ => match rng.below(2) {
            0 => Form::Help,
            _ => Form::HelpShort,
        },
    };
    let m = if rng.chance(1, 2) { 5 } else { 16 };
    let n = rng.usize(m);
    let upper = rng.chance(1, 2);
    let mut depth = 0;
    // swarm: half of the scripts are free of the failing line kinds so that successes are common
    let calm = rng.chance(1, 2);
    let mut lines: Vec<String> = vec![];
    for _ in 0..n {
        let mut l = gen_line(rng, upper, &mut depth);
        if calm && (l.starts_with("exit") || l.starts_with("unknown_") || l.starts_with("trigger") || l.starts_with("assert") || l.contains("unterminated") || l.contains("\\q") || l.starts_with('!') || l.starts_with("x = \"")) {
            l = "echo calm".to_string();
        }
        lines.push(l);
    }
    for _ in 0..depth {
        if rng.chance(4, 5) {
            lines.push("end".to_string());
        }
    }
    // pre-processor output (only where the whole text parses, and not for lint, whose own messages are compared exactly)
    if calm && !matches!(form, Form::LintShort | Form::LintLong) && rng.chance(1, 8) {
        for k in 0..1 + rng.usize(2) {
            let at = rng.usize(lines.len() + 1);
            lines.insert(at, format!("!print banner{} text", k));
        }
    }
    // a child process that writes to the inherited stdout between the script's own lines (the order of the two must
    // be kept). Not next to `print`: text without a line break legitimately waits in stdout's line buffer.
    if rng.chance(1, 8) && !lines.iter().any(|l| l.trim_start().starts_with("print ") || l.trim_start() == "print") {
        for k in 0..1 + rng.usize(2) {
            let at = rng.usize(lines.len() + 1);
            lines.insert(at, format!("exec /bin/echo child{}", k));
        }
    }
    if rng.chance(1, 40) {
        // more output than a pipe buffer holds, and a script of a few hundred lines
        let long = "0123456789".repeat(40);
        let at = rng.usize(lines.len() + 1);
        for k in 0..200 + rng.usize(100) {
            lines.insert(at, format!("echo {} {}", k, long));
        }
    }
    // a script that is a lone dash (the spelling many tools take for "read standard input"): to duck it is a script
    // text or a line like any other
    if rng.chance(1, 25) {
        lines = vec![rng.pick(&["-", " - ", "--", "-e", "- x"]).to_string()];
    }
    let fault = if matches!(form, Form::File | Form::LintShort | Form::LintLong | Form::FileWithExtraArg) && rng.chance(1, 8) {
        Some(match rng.below(3) {
            0 => FileFault::Missing,
            1 => FileFault::Directory,
            _ => FileFault::InvalidUtf8,
        })
    } else {
        None
    };
    let included = if rng.chance(1, 6) {
        let n = 1 + rng.usize(3);
        let inc: Vec<String> = (0..n).map(|k| if upper && rng.chance(1, 4) { format!("Shout = set {}", k) } else { format!("echo included {}", k) }).collect();
        let at = rng.usize(lines.len() + 1);
        lines.insert(at, "!include_files inc/part.ds".to_string());
        Some(inc)
    } else {
        None
    };
    let odd_name = rng.chance(1, 30);
    let closed_stdout = matches!(form, Form::LintShort | Form::LintLong | Form::Version | Form::Help | Form::HelpShort) && rng.chance(1, 6);
    Case { entropy: rng.next_u64(), form, lines, fault, included, odd_name, closed_stdout }
}

/// the reference run's `exec`: what `/bin/echo words...` without an output variable adds to the inherited stdout, written
/// into the run's own stream at the moment the command runs
#[derive(Clone)]
struct ExecEcho;

impl duckscript::types::command::Command for ExecEcho {
    fn name(&self) -> String {
        "std::process::Execute".to_string()
    }
    fn aliases(&self) -> Vec<String> {
        vec!["exec".to_string()]
    }
    fn clone_and_box(&self) -> Box<dyn duckscript::types::command::Command> {
        Box::new(self.clone())
    }
    fn run(&self, ctx: duckscript::types::command::CommandInvocationContext) -> duckscript::types::command::CommandResult {
        use std::io::Write;
        if ctx.arguments.first().map(|a| a == "/bin/echo").unwrap_or(false) {
            let _ = writeln!(ctx.env.out, "{}", ctx.arguments[1..].join(" "));
            sim::with_core(|c| c.probe("child-process-output-between-the-script's-lines"));
        }
        duckscript::types::command::CommandResult::Continue(None)
    }
}

fn library_context() -> Context {
    let mut context = Context::new();
    duckscriptsdk::load(&mut context.commands).expect("sdk load");
    context.commands.remove("exec");
    context.commands.set(Box::new(ExecEcho)).expect("reference exec");
    context
}

fn run_case(case: &Case, env: &WorkerEnv) -> Verdict {
    let duck = match &env.duck {
        Some(d) => d.clone(),
        None => return Verdict::Inconclusive { reason: "no duck executable given (--duck)".to_string() },
    };
    let _ = std::env::set_current_dir(&env.jail_root);
    let _ = std::fs::remove_dir_all("run");
    let _ = std::fs::create_dir_all("run");
    let mut text = case.lines.join("\n");
    text.push('\n');
    if let Some(inc) = &case.included {
        let _ = std::fs::create_dir_all("run/inc");
        let _ = std::fs::write("run/inc/part.ds", format!("{}\n", inc.join("\n")));
        sim::with_core(|c| c.probe("script-includes-a-file-relative-to-its-directory"));
    }
    match &case.fault {
        None => {
            let _ = std::fs::write(SCRIPT, &text);
        }
        Some(FileFault::Missing) => sim::with_core(|c| c.fire("F8", "script file missing")),
        Some(FileFault::Directory) => {
            let _ = std::fs::create_dir_all(SCRIPT);
            sim::with_core(|c| c.fire("F8", "script path is a directory"));
        }
        Some(FileFault::InvalidUtf8) => {
            let _ = std::fs::write(SCRIPT, [0x65u8, 0x63, 0x68, 0x6f, 0x20, 0xff, 0xfe, 0x0a]);
            sim::with_core(|c| c.fire("F8", "script file is not UTF-8"));
        }
    }
    let args: Vec<String> = match case.form {
        Form::File => vec![SCRIPT.to_string()],
        Form::FileWithExtraArg => vec![SCRIPT.to_string(), "extra".to_string()],
        Form::EvalShort => vec!["-e".to_string(), text.clone()],
        Form::EvalLong => vec!["--eval".to_string(), text.clone()],
        Form::LintShort => vec!["-l".to_string(), SCRIPT.to_string()],
        Form::LintLong => vec!["--lint".to_string(), SCRIPT.to_string()],
        Form::Version => vec!["--version".to_string()],
        Form::Help => vec!["--help".to_string()],
        Form::HelpShort => vec!["-h".to_string()],
    };
    // ---- a script file whose NAME is not valid UTF-8 (legal on this file system): the executable must answer like for
    // any other file it can or cannot use - run it, or fail with an Error: line - and not die on its own arguments
    if case.odd_name && matches!(case.form, Form::File | Form::LintShort) && case.fault.is_none() {
        use std::os::unix::ffi::OsStrExt;
        let name = std::ffi::OsStr::from_bytes(b"run/caf\xe9.ds");
        let _ = std::fs::write(name, "echo hi\n");
        let mut cmd = Command::new(&duck);
        if matches!(case.form, Form::LintShort) {
            cmd.arg("-l");
        }
        let out = cmd.arg(name).env_clear().current_dir(&env.jail_root).stdin(Stdio::null()).stdout(Stdio::piped()).stderr(Stdio::piped()).output();
        let _ = std::fs::remove_dir_all("run");
        sim::with_core(|c| c.probe("script-file-name-not-utf8"));
        return match out {
            Err(e) => Verdict::Inconclusive { reason: format!("cannot execute duck: {}", e) },
            Ok(o) => {
                let so = String::from_utf8_lossy(&o.stdout).to_string();
                match o.status.code() {
                    Some(0) => Verdict::Pass,
                    Some(_) if so.contains("Error:") => Verdict::Pass,
                    other => Verdict::Fail { class: "no-error-message".to_string(), detail: format!("duck <file name with a non-UTF-8 byte> ended with status {:?} and no 'Error:' line; stdout {:?}{}", other, so, if String::from_utf8_lossy(&o.stderr).contains("panicked") { "; stderr shows a panic" } else { "" }) },
                }
            }
        };
    }
    // ---- the executable: clean environment, private cwd, no stdin
    let closed_stdout = case.closed_stdout && matches!(case.form, Form::LintShort | Form::LintLong | Form::Version | Form::Help | Form::HelpShort);
    let output = if closed_stdout {
        // a pipe whose read end is closed before the child starts: every write to it fails with EPIPE
        let mut fds = [0i32; 2];
        if unsafe { libc::pipe(fds.as_mut_ptr()) } != 0 {
            return Verdict::Inconclusive { reason: "cannot create a pipe".to_string() };
        }
        unsafe { libc::close(fds[0]) };
        let write_end = unsafe { <Stdio as std::os::unix::io::FromRawFd>::from_raw_fd(fds[1]) };
        sim::with_core(|c| c.fire("F16", "nobody reads the executable's standard output (EPIPE on every write)"));
        Command::new(&duck).args(&args).env_clear().current_dir(&env.jail_root).stdin(Stdio::null()).stdout(write_end).stderr(Stdio::piped()).output()
    } else {
        Command::new(&duck).args(&args).env_clear().current_dir(&env.jail_root).stdin(Stdio::null()).stdout(Stdio::piped()).stderr(Stdio::piped()).output()
    };
    let output = match output {
        Ok(o) => o,
        Err(e) => return Verdict::Inconclusive { reason: format!("cannot execute duck: {}", e) },
    };
    let status = output.status.code();
    let stdout = String::from_utf8_lossy(&output.stdout).to_string();
    sim::with_core(|c| {
        let seq = c.next_seq();
        c.log.push(Event::Op { seq, op: "duck".to_string(), args: args.iter().map(|a| a.replace('\n', "\\n")).collect(), got: format!("exit={:?} stdout={} bytes", status, stdout.replace(env.jail_root.to_string_lossy().as_ref(), "<jail>").len()), want: String::new() });
    });
    if status.is_none() {
        return Verdict::Fail { class: "cli-killed-by-signal".to_string(), detail: format!("duck {:?} was killed by a signal; stderr: {}", args, String::from_utf8_lossy(&output.stderr)) };
    }
    let status = status.unwrap();
    if closed_stdout && (status == 101 || String::from_utf8_lossy(&output.stderr).contains("panicked")) {
        let _ = std::fs::remove_dir_all("run");
        return Verdict::Fail { class: "cli-panicked".to_string(), detail: format!("duck {:?} with nobody reading its standard output ended with status {}; stderr: {}", args, status, String::from_utf8_lossy(&output.stderr).lines().next().unwrap_or("")) };
    }
    if closed_stdout && matches!(case.form, Form::Version | Form::Help | Form::HelpShort) {
        let _ = std::fs::remove_dir_all("run");
        return if status == 0 { Verdict::Pass } else { Verdict::Fail { class: "exit-status".to_string(), detail: format!("duck {:?} with nobody reading its standard output exited with {}", args, status) } };
    }

    // ---- the library, in-process, on the same directory
    let expected: (bool, String) = match case.form {
        Form::Version => {
            let want = format!("Duckscript Runtime: {}\nDuckscript SDK: {}\n", duckscript::version(), duckscriptsdk::version());
            if status != 0 || !stdout.starts_with(&want) || !stdout.contains("Duckscript CLI: ") {
                return Verdict::Fail { class: "version-output".to_string(), detail: format!("exit {} stdout {:?}", status, stdout) };
            }
            sim::with_core(|c| c.probe("version-or-help"));
            return Verdict::Pass;
        }
        Form::Help | Form::HelpShort => {
            if status != 0 || !stdout.contains("USAGE:") {
                return Verdict::Fail { class: "help-output".to_string(), detail: format!("exit {} stdout {:?}", status, stdout) };
            }
            sim::with_core(|c| c.probe("version-or-help"));
            return Verdict::Pass;
        }
        Form::LintShort | Form::LintLong => {
            // accepted exactly when it parses and every label, command name and output variable is lower-case
            match parser::parse_file(SCRIPT) {
                Err(e) => (false, format!("Error: {}\n", e)),
                Ok(instructions) => {
                    let mut bad = None;
                    for ins in &instructions {
                        if let InstructionType::Script(si) = &ins.instruction_type {
                            for part in [&si.label, &si.command, &si.output] {
                                if let Some(t) = part {
                                    if t.to_lowercase() != *t && bad.is_none() {
                                        bad = Some(ins.meta_info.clone());
                                    }
                                }
                            }
                        }
                    }
                    match bad {
                        None => {
                            sim::with_core(|c| c.probe("lint-accepted"));
                            (true, String::new())
                        }
                        Some(_) => {
                            sim::with_core(|c| c.probe("lint-rejected-upper-case"));
                            (false, String::new())
                        }
                    }
                }
            }
        }
        Form::File | Form::FileWithExtraArg | Form::EvalShort | Form::EvalLong => {
            let out = SimWriter::new("out", vec![]);
            let err = SimWriter::new("err", vec![]);
            let renv = Env::new(Some(Box::new(out.clone())), Some(Box::new(err)), None);
            let r = if matches!(case.form, Form::File | Form::FileWithExtraArg) { runner::run_script_file(SCRIPT, library_context(), Some(renv)) } else { runner::run_script(&text, library_context(), Some(renv)) };
            // `!print` lines act while the text is parsed, before anything runs: the executable's stdout carries them
            // once each, ahead of the run's own output (the in-process parse printed them to this worker's stdout)
            let mut pre = String::new();
            if case.fault.is_none() {
                let eval_form = matches!(case.form, Form::EvalShort | Form::EvalLong);
                for l in &case.lines {
                    if eval_form && l.starts_with("!include_files") {
                        // (given as text the script has no directory: the include fails and parsing stops here)
                        break;
                    }
                    if let Some(rest) = l.strip_prefix("!print ") {
                        for a in rest.split_whitespace() {
                            pre.push_str(a);
                            pre.push(' ');
                        }
                        pre.push('\n');
                        sim::with_core(|c| c.probe("pre-processor-print"));
                    }
                }
            }
            let printed = format!("{}{}", pre, String::from_utf8_lossy(&out.contents()));
            // "failing by non-zero exit": a script whose first line asks to exit with a non-zero integer fails, however
            // large the integer (an independent rule: here the library is the party under test)
            if let (Ok(_), Some(first)) = (&r, case.lines.first()) {
                if let Some(v) = first.strip_prefix("exit ") {
                    let v = v.trim();
                    let digits = v.strip_prefix('-').unwrap_or(v);
                    if case.fault.is_none() && !digits.is_empty() && digits.chars().all(|c| c.is_ascii_digit()) && digits.chars().any(|c| c != '0') {
                        let _ = std::fs::remove_dir_all("run");
                        return Verdict::Fail { class: "non-zero-exit-reported-as-success".to_string(), detail: format!("the script starts with {:?} and the library run succeeded (duck exited with {})", first, status) };
                    }
                }
            }
            match r {
                Ok(_) => {
                    sim::with_core(|c| c.probe("library-ok"));
                    (true, printed)
                }
                Err(e) => {
                    sim::with_core(|c| c.probe(match &e {
                        duckscript::types::error::ScriptError::Runtime(m, _) if m.starts_with("Exit with error code") => "library-failed-by-exit-code",
                        duckscript::types::error::ScriptError::Runtime(_, _) => "library-failed-by-crash",
                        duckscript::types::error::ScriptError::ErrorReadingFile(_, _) => "library-failed-reading-file",
                        _ => "library-failed-by-parse-error",
                    }));
                    (false, format!("{}Error: {}\n", printed, e))
                }
            }
        }
    };
    let _ = std::fs::remove_dir_all("run");
    let (ok, want_stdout) = expected;
    if ok != (status == 0) {
        return Verdict::Fail { class: "exit-status".to_string(), detail: format!("duck {:?} exited with {}, the library says {}; stdout {:?}", args, status, if ok { "success" } else { "failure" }, stdout) };
    }
    if closed_stdout {
        // the status was the whole answer
        return Verdict::Pass;
    }
    if !ok {
        // (after a `print` without a line break the message follows on the same line)
        let has_error_message = stdout.contains("Error: ");
        if !has_error_message {
            return Verdict::Fail { class: "no-error-message".to_string(), detail: format!("duck {:?} failed with status {} but printed no 'Error:' message: {:?}", args, status, stdout) };
        }
    }
    match case.form {
        Form::LintShort | Form::LintLong => {
            // lint only parses: the output is exactly the linter's own messages, nothing the script would print
            let parsed_line = format!("File: {} parsed correctly.\n", SCRIPT);
            let good = if ok {
                stdout == format!("{}No lint errors found in file: {}\n", parsed_line, SCRIPT)
            } else if !want_stdout.is_empty() {
                // parse failure
                stdout == want_stdout
            } else {
                // parsed, then rejected for an upper-case label / command / output
                stdout.starts_with(&format!("{}Error: ", parsed_line)) && stdout.matches('\n').count() == 2
            };
            if !good {
                return Verdict::Fail { class: "lint-output".to_string(), detail: format!("duck {:?} (library verdict: {}) printed {:?}", args, if ok { "accept" } else { "reject" }, stdout) };
            }
        }
        _ => {
            if stdout != want_stdout {
                return Verdict::Fail { class: "output-differs".to_string(), detail: format!("duck {:?} printed {:?}, the library run gives {:?}", args, stdout, want_stdout) };
            }
        }
    }
    Verdict::Pass
}

pub struct C20;

impl Prop for C20 {
    fn id(&self) -> &'static str {
        "C20"
    }
    fn info(&self) -> PropInfo {
        PropInfo {
            level: "exploration",
            rule: "seeded scripts of 0-16 lines (echo/print/println, assignments, variable reads, labels, if/end, calc, exit with zero / non-zero / non-numeric codes, unknown commands, trigger_error with exit_on_error on/off, assert/assert_eq, malformed lines; label/command/output spellings with and without upper case) run through the real duck executable as a subprocess (clean environment, private cwd, no stdin) in every invocation form (file, file + extra argument, -e, --eval, -l, --lint, --version, --help, -h); the script file is sometimes missing, a directory or not UTF-8. Oracle: the in-process library on the same directory: exit status 0 exactly when the library run succeeds, otherwise non-zero with an 'Error:' line; stdout byte-equal to what the library run wrote plus the error line; lint accepted exactly when the file parses and all labels/commands/outputs are lower-case, and it never runs the script. Non-trivial = the subprocess ran (1 step is all there is; counted when the script has >= 3 lines); distinct = distinct (form, exit status, outcome class, script shape) traces",
            real: &["the duck executable built from /repo (duckscript_cli: main.rs, linter.rs)", "duckscript + duckscriptsdk in-process as the reference", "kernel: process boundary, tmpfs"],
            stub: &["none"],
            assumptions: &["modest: a differential check; no schedule", "scripts contain no file-system, process or network commands and their output does not depend on hash order or randomness", "stderr of duck is not part of the statement"],
            needs_jail: true,
            needs_duck: true,
            expected_probes: &["library-ok", "library-failed-by-exit-code", "library-failed-by-crash", "library-failed-by-parse-error", "library-failed-reading-file", "lint-accepted", "lint-rejected-upper-case", "version-or-help"],
        }
    }
    fn runs(&self, tier: &str) -> u64 {
        if tier == "quick" { 20_000 } else { 600_000 }
    }
    fn generate(&self, rng: &mut Rng, _avoid: &[String]) -> Value {
        serde_json::to_value(gen_case(rng)).unwrap()
    }
    fn execute(&self, case: &Value, env: &WorkerEnv) -> Outcome {
        let case: Case = match serde_json::from_value(case.clone()) {
            Ok(c) => c,
            Err(e) => return Outcome::collect(Verdict::Inconclusive { reason: format!("bad case: {}", e) }, false),
        };
        let res = std::panic::catch_unwind(std::panic::AssertUnwindSafe(|| run_case(&case, env)));
        let verdict = match res {
            Ok(v) => v,
            Err(_) => {
                let p = sim::take_panic().unwrap_or_default();
                Verdict::Fail { class: format!("panic@{}", sim::panic_site(&p)), detail: p }
            }
        };
        // make the abstract trace reflect the script's shape (the subprocess is a single step)
        sim::with_core(|c| {
            for l in &case.lines {
                let seq = c.next_seq();
                let head = l.split(' ').next().unwrap_or("").to_string();
                c.log.push(Event::Op { seq, op: "line".to_string(), args: vec![], got: head, want: String::new() });
            }
        });
        Outcome::collect(verdict, false)
    }
    fn shrink(&self, case: &Value) -> Vec<Value> {
        let case: Case = match serde_json::from_value(case.clone()) {
            Ok(c) => c,
            Err(_) => return vec![],
        };
        let mut out: Vec<Case> = vec![];
        if case.fault.is_some() {
            let mut c = case.clone();
            c.fault = None;
            out.push(c);
        }
        if case.closed_stdout {
            let mut c = case.clone();
            c.closed_stdout = false;
            out.push(c);
        }
        for i in (0..case.lines.len()).rev() {
            let mut c = case.clone();
            c.lines.remove(i);
            out.push(c);
        }
        if case.entropy != 0 {
            let mut c = case.clone();
            c.entropy = 0;
            out.push(c);
        }
        out.into_iter().filter(|c| *c != case).map(|c| serde_json::to_value(c).unwrap()).collect()
    }
}
