//! C03 - the runner executes exactly what the command results dictate.
//! World without SDK: harness commands answer from scripted result sequences; the abstract
//! machine of DESIGN Appendix D.1 is the oracle, compared online at every invocation.

use crate::prop::{Outcome, Prop, PropInfo, Verdict, WorkerEnv};
use crate::rng::Rng;
use crate::sim;
use duckscript::runner;
use duckscript::types::command::{Command, CommandInvocationContext, CommandResult, GoToValue};
use duckscript::types::error::ScriptError;
use duckscript::types::runtime::Context;
use serde::{Deserialize, Serialize};
use serde_json::Value;
use std::cell::RefCell;
use std::collections::BTreeMap;

#[derive(Serialize, Deserialize, Clone, Debug, PartialEq)]
pub enum Ans {
    Cont(Option<String>),
    GotoLabel(Option<String>, String),
    GotoLine(Option<String>, usize),
    Error(String),
    Crash(String),
    Exit(Option<String>),
}

#[derive(Serialize, Deserialize, Clone, Debug, PartialEq)]
pub enum LineKind {
    Cmd,
    Empty,
    Comment,
    /// a pre-processor line (`!print ...`): acts while the text is parsed, occupies a line like any other and does
    /// nothing when the runner passes it
    PreProcess,
}

#[derive(Serialize, Deserialize, Clone, Debug, PartialEq)]
pub struct Line {
    pub kind: LineKind,
    pub label: Option<String>,
    pub out: Option<String>,
    /// spelling used in the script (a name, an alias, or an unregistered word)
    pub cmd: Option<String>,
    pub args: Vec<String>,
    pub answers: Vec<Ans>,
}

#[derive(Serialize, Deserialize, Clone, Debug, PartialEq)]
pub struct Handler {
    /// registered under its own name `hh` with alias `on_error` (true) or as a command named `on_error`
    pub as_alias: bool,
    pub answers: Vec<Ans>,
}

#[derive(Serialize, Deserialize, Clone, Debug, PartialEq)]
pub struct Case {
    pub entropy: u64,
    pub file_mode: bool,
    pub handler: Option<Handler>,
    /// false: the handler is not registered before the run; a `reg` line registers it while the script runs
    #[serde(default = "yes")]
    pub handler_initially: bool,
    /// CRLF line endings
    #[serde(default)]
    pub crlf: bool,
    pub init: Vec<(String, String)>,
    pub lines: Vec<Line>,
    pub budget: u64,
}

fn yes() -> bool {
    true
}

pub const NAMES: [&str; 6] = ["k0", "k1", "k2", "k3", "k4", "k5"];

pub fn aliases_of(name: &str) -> Vec<String> {
    match name {
        "k1" => vec!["kk1".to_string()],
        "k2" => vec!["k2a".to_string(), "k2b".to_string()],
        "k4" => vec!["four".to_string()],
        _ => vec![],
    }
}

pub fn canonical(spelling: &str) -> Option<&'static str> {
    for n in NAMES {
        if n == spelling || aliases_of(n).iter().any(|a| a == spelling) {
            return Some(n);
        }
    }
    None
}

// ------------------------------------------------------------------ rendering

pub fn render_arg(a: &str) -> String {
    if a.is_empty() || a.contains(' ') {
        format!("\"{}\"", a)
    } else {
        a.to_string()
    }
}

pub fn render(lines: &[Line]) -> String {
    let mut text = String::new();
    for l in lines {
        match l.kind {
            LineKind::Empty => {}
            LineKind::Comment => text.push_str("# a comment"),
            LineKind::PreProcess => text.push_str("!print pp"),
            LineKind::Cmd => {
                let mut parts: Vec<String> = vec![];
                if let Some(lb) = &l.label {
                    parts.push(format!(":{}", lb));
                }
                if let Some(cmd) = &l.cmd {
                    if let Some(o) = &l.out {
                        parts.push(o.clone());
                        parts.push("=".to_string());
                    }
                    parts.push(cmd.clone());
                    for a in &l.args {
                        parts.push(render_arg(a));
                    }
                } else if let Some(o) = &l.out {
                    // an output variable without a command: a value-less continue, i.e. the variable is deleted
                    parts.push(o.clone());
                    parts.push("=".to_string());
                }
                text.push_str(&parts.join(" "));
            }
        }
        text.push('\n');
    }
    text
}

// ------------------------------------------------------------------ the abstract machine

#[derive(Clone, Debug, PartialEq)]
pub struct Call {
    pub name: String,
    pub args: Vec<String>,
    pub vars: BTreeMap<String, String>,
}

#[derive(Clone, Debug, PartialEq)]
pub enum End {
    Ok(BTreeMap<String, String>),
    /// 1-based source line of the failing instruction
    Err(usize),
}

pub fn bind(tpl: &str, vars: &BTreeMap<String, String>) -> String {
    // benign subset: only ${name} occurrences, no escapes
    let mut out = String::new();
    let mut rest = tpl;
    while let Some(i) = rest.find("${") {
        out.push_str(&rest[..i]);
        match rest[i + 2..].find('}') {
            Some(j) => {
                let name = &rest[i + 2..i + 2 + j];
                if let Some(v) = vars.get(name) {
                    out.push_str(v);
                }
                rest = &rest[i + 2 + j + 1..];
            }
            None => {
                out.push_str(&rest[i..]);
                rest = "";
            }
        }
    }
    out.push_str(rest);
    out
}

fn answer_at(answers: &[Ans], visit: usize) -> Ans {
    if answers.is_empty() {
        Ans::Cont(None)
    } else {
        answers[visit.min(answers.len() - 1)].clone()
    }
}

fn set_out(vars: &mut BTreeMap<String, String>, out: &Option<String>, v: Option<String>) {
    if let Some(o) = out {
        match v {
            Some(v) => {
                vars.insert(o.clone(), v);
            }
            None => {
                vars.remove(o);
            }
        }
    }
}

/// "an integer non-zero exit value makes the run fail": an optional sign and decimal digits, not all of them zero -
/// whatever the machine type an implementation parses it into
fn exit_fails(v: &Option<String>) -> bool {
    match v {
        Some(s) => {
            let digits = s.strip_prefix('+').or_else(|| s.strip_prefix('-')).unwrap_or(s);
            !digits.is_empty() && digits.chars().all(|c| c.is_ascii_digit()) && digits.chars().any(|c| c != '0')
        }
        None => false,
    }
}

pub struct ModelRun {
    pub calls: Vec<Call>,
    pub end: End,
    pub probes: Vec<&'static str>,
}

pub fn model(case: &Case, source: &str) -> ModelRun {
    let mut vars: BTreeMap<String, String> = case.init.iter().cloned().collect();
    let mut labels: BTreeMap<String, usize> = BTreeMap::new();
    for (i, l) in case.lines.iter().enumerate() {
        if l.kind == LineKind::Cmd {
            if let Some(lb) = &l.label {
                if labels.contains_key(lb) {
                    // later duplicate wins
                }
                labels.insert(lb.clone(), i);
            }
        }
    }
    let mut visits: Vec<usize> = vec![0; case.lines.len()];
    let mut handler_present = case.handler.is_some() && case.handler_initially;
    let mut handler_visits = 0usize;
    let mut total = 0u64;
    let mut calls = vec![];
    let mut probes = vec![];
    let mut pc = 0usize;
    let mut jumped = false;
    let end;
    loop {
        if pc >= case.lines.len() {
            if pc > case.lines.len() {
                probes.push("jump-past-end");
            }
            end = End::Ok(vars);
            break;
        }
        let l = &case.lines[pc];
        let cmd = match (&l.kind, &l.cmd) {
            (LineKind::Cmd, Some(c)) => c,
            (LineKind::Cmd, None) => {
                if l.out.is_some() {
                    probes.push("output-only-line");
                }
                set_out(&mut vars, &l.out, None);
                pc += 1;
                continue;
            }
            _ => {
                pc += 1;
                continue;
            }
        };
        // resolve the command
        let is_handler_name = handler_present && case.handler.as_ref().map(|h| cmd == "on_error" || (h.as_alias && cmd == "hh")).unwrap_or(false);
        // `reg` / `unreg`: harness commands that (un)register the handler while the script runs
        if cmd == "reg" || cmd == "unreg" {
            let args: Vec<String> = l.args.iter().map(|a| bind(a, &vars)).collect();
            calls.push(Call { name: cmd.clone(), args, vars: vars.clone() });
            total += 1;
            if total > case.budget {
                set_out(&mut vars, &l.out, None);
                end = End::Ok(vars);
                break;
            }
            if cmd == "reg" {
                if case.handler.is_some() {
                    if !handler_present {
                        probes.push("handler-registered-during-run");
                    }
                    handler_present = true;
                }
            } else {
                handler_present = false;
            }
            set_out(&mut vars, &l.out, None);
            pc += 1;
            continue;
        }
        let name: String = if is_handler_name {
            if case.handler.as_ref().unwrap().as_alias { "hh".to_string() } else { "on_error".to_string() }
        } else {
            match canonical(cmd) {
                Some(n) => n.to_string(),
                None => {
                    end = End::Err(pc + 1);
                    break;
                }
            }
        };
        let args: Vec<String> = l.args.iter().map(|a| bind(a, &vars)).collect();
        calls.push(Call { name: name.clone(), args, vars: vars.clone() });
        total += 1;
        let ans = if total > case.budget {
            Ans::Exit(None)
        } else if is_handler_name {
            let a = answer_at(&case.handler.as_ref().unwrap().answers, handler_visits);
            handler_visits += 1;
            a
        } else {
            let a = answer_at(&l.answers, visits[pc]);
            visits[pc] += 1;
            a
        };
        match ans {
            Ans::Cont(v) => {
                if v.is_none() && l.out.as_ref().map(|o| vars.contains_key(o)).unwrap_or(false) && jumped {
                    probes.push("cont-none-deletes-after-goto");
                }
                set_out(&mut vars, &l.out, v);
                pc += 1;
            }
            Ans::GotoLabel(v, lb) => {
                set_out(&mut vars, &l.out, v);
                match labels.get(&lb) {
                    Some(t) => {
                        let dup = case.lines.iter().filter(|x| x.kind == LineKind::Cmd && x.label.as_deref() == Some(lb.as_str())).count() > 1;
                        if dup {
                            probes.push("duplicate-label-taken");
                        }
                        pc = *t;
                        jumped = true;
                    }
                    None => {
                        end = End::Err(pc + 1);
                        break;
                    }
                }
            }
            Ans::GotoLine(v, n) => {
                set_out(&mut vars, &l.out, v);
                pc = n;
                jumped = true;
            }
            Ans::Exit(v) => {
                set_out(&mut vars, &l.out, v.clone());
                if exit_fails(&v) {
                    end = End::Err(pc + 1);
                } else {
                    if v.as_ref().map(|s| s.parse::<i32>().is_err()).unwrap_or(false) {
                        probes.push("exit-non-numeric");
                    }
                    end = End::Ok(vars);
                }
                break;
            }
            Ans::Error(m) => {
                set_out(&mut vars, &l.out, Some("false".to_string()));
                if jumped {
                    probes.push("error-inside-jumped-to-region");
                }
                if let Some(h) = case.handler.as_ref().filter(|_| handler_present) {
                    let hname = if h.as_alias { "hh" } else { "on_error" };
                    calls.push(Call {
                        name: hname.to_string(),
                        args: vec![m.clone(), (pc + 1).to_string(), source.to_string()],
                        vars: vars.clone(),
                    });
                    total += 1;
                    if !source.is_empty() {
                        probes.push("file-mode-handler");
                    }
                    let hans = if total > case.budget { Ans::Exit(None) } else { answer_at(&h.answers, handler_visits) };
                    handler_visits += 1;
                    match hans {
                        Ans::Exit(_) => {
                            probes.push("handler-exits");
                            end = End::Err(pc + 1);
                            break;
                        }
                        Ans::Crash(_) => {
                            probes.push("handler-crashes");
                            end = End::Err(pc + 1);
                            break;
                        }
                        _ => {}
                    }
                }
                pc += 1;
            }
            Ans::Crash(_) => {
                end = End::Err(pc + 1);
                break;
            }
        }
    }
    ModelRun { calls, end, probes }
}

// ------------------------------------------------------------------ the harness commands

struct World {
    case: Case,
    /// None: no online comparison (used by C13, whose reference is the unhalted run)
    expected: Option<Vec<Call>>,
    next: usize,
    visits: Vec<usize>,
    handler_visits: usize,
    total: u64,
}

thread_local! {
    static WORLD: RefCell<Option<World>> = RefCell::new(None);
}

fn to_result(a: Ans) -> CommandResult {
    match a {
        Ans::Cont(v) => CommandResult::Continue(v),
        Ans::GotoLabel(v, l) => CommandResult::GoTo(v, GoToValue::Label(format!(":{}", l))),
        Ans::GotoLine(v, n) => CommandResult::GoTo(v, GoToValue::Line(n)),
        Ans::Error(m) => CommandResult::Error(m),
        Ans::Crash(m) => CommandResult::Crash(m),
        Ans::Exit(v) => CommandResult::Exit(v),
    }
}

fn observe(name: &str, ctx: &CommandInvocationContext) {
    let unchecked = WORLD.with(|w| {
        let mut w = w.borrow_mut();
        let w = w.as_mut().unwrap();
        if w.expected.is_none() {
            w.next += 1;
            true
        } else {
            false
        }
    });
    if unchecked {
        return;
    }
    let vars: BTreeMap<String, String> = ctx.variables.iter().map(|(k, v)| (k.clone(), v.clone())).collect();
    let got = Call { name: name.to_string(), args: ctx.arguments.clone(), vars };
    let problem = WORLD.with(|w| {
        let mut w = w.borrow_mut();
        let w = w.as_mut().unwrap();
        let idx = w.next;
        w.next += 1;
        match w.expected.as_ref().unwrap().get(idx) {
            Some(exp) if *exp == got => None,
            Some(exp) => Some(format!("invocation #{}: real {:?} / model {:?}", idx, got, exp)),
            None => Some(format!("invocation #{}: real {:?} / model expects no further invocation", idx, got)),
        }
    });
    if let Some(p) = problem {
        sim::with_core(|c| c.violate("call-divergence", p));
    }
}

#[derive(Clone)]
struct K {
    name: String,
}

impl Command for K {
    fn name(&self) -> String {
        self.name.clone()
    }
    fn aliases(&self) -> Vec<String> {
        aliases_of(&self.name)
    }
    fn clone_and_box(&self) -> Box<dyn Command> {
        Box::new(self.clone())
    }
    fn run(&self, ctx: CommandInvocationContext) -> CommandResult {
        observe(&self.name, &ctx);
        let line = ctx.line;
        let ans = WORLD.with(|w| {
            let mut w = w.borrow_mut();
            let w = w.as_mut().unwrap();
            w.total += 1;
            if w.total > w.case.budget {
                return Ans::Exit(None);
            }
            match w.case.lines.get(line) {
                Some(l) => {
                    let v = w.visits[line];
                    w.visits[line] += 1;
                    answer_at(&l.answers, v)
                }
                None => Ans::Crash(format!("harness: invoked at line index {} which does not exist", line)),
            }
        });
        to_result(ans)
    }
}

#[derive(Clone)]
struct H {
    as_alias: bool,
}

impl Command for H {
    fn name(&self) -> String {
        if self.as_alias { "hh".to_string() } else { "on_error".to_string() }
    }
    fn aliases(&self) -> Vec<String> {
        if self.as_alias { vec!["on_error".to_string()] } else { vec![] }
    }
    fn clone_and_box(&self) -> Box<dyn Command> {
        Box::new(self.clone())
    }
    fn run(&self, ctx: CommandInvocationContext) -> CommandResult {
        observe(&self.name(), &ctx);
        let ans = WORLD.with(|w| {
            let mut w = w.borrow_mut();
            let w = w.as_mut().unwrap();
            w.total += 1;
            if w.total > w.case.budget {
                return Ans::Exit(None);
            }
            let v = w.handler_visits;
            w.handler_visits += 1;
            answer_at(&w.case.handler.as_ref().unwrap().answers, v)
        });
        to_result(ans)
    }
}

#[derive(Clone)]
struct Reg {
    register: bool,
}

impl Command for Reg {
    fn name(&self) -> String {
        if self.register { "reg".to_string() } else { "unreg".to_string() }
    }
    fn clone_and_box(&self) -> Box<dyn Command> {
        Box::new(self.clone())
    }
    fn run(&self, ctx: CommandInvocationContext) -> CommandResult {
        observe(&self.name(), &ctx);
        let (over, spec) = WORLD.with(|w| {
            let mut w = w.borrow_mut();
            let w = w.as_mut().unwrap();
            w.total += 1;
            (w.total > w.case.budget, w.case.handler.clone())
        });
        if over {
            return CommandResult::Exit(None);
        }
        if self.register {
            if let Some(h) = spec {
                if !ctx.commands.exists("on_error") {
                    let _ = ctx.commands.set(Box::new(H { as_alias: h.as_alias }));
                }
            }
        } else {
            ctx.commands.remove("on_error");
        }
        CommandResult::Continue(None)
    }
}

pub fn build_context(case: &Case) -> Context {
    let mut context = Context::new();
    for n in NAMES {
        context.commands.set(Box::new(K { name: n.to_string() })).unwrap();
    }
    context.commands.set(Box::new(Reg { register: true })).unwrap();
    context.commands.set(Box::new(Reg { register: false })).unwrap();
    if let Some(h) = &case.handler {
        if case.handler_initially {
            context.commands.set(Box::new(H { as_alias: h.as_alias })).unwrap();
        }
    }
    for (k, v) in &case.init {
        context.variables.insert(k.clone(), v.clone());
    }
    sim::decorate(&mut context.commands);
    context
}

pub fn install_world(case: &Case, expected: Option<Vec<Call>>) {
    WORLD.with(|w| {
        *w.borrow_mut() = Some(World {
            case: case.clone(),
            expected,
            next: 0,
            visits: vec![0; case.lines.len()],
            handler_visits: 0,
            total: 0,
        })
    });
}

pub fn world_invocations() -> usize {
    WORLD.with(|w| w.borrow().as_ref().map(|w| w.next).unwrap_or(0))
}

// ------------------------------------------------------------------ generation

const VARS: [&str; 5] = ["v0", "v1", "v2", "v3", "v4"];
const LABELS: [&str; 4] = ["la", "lb", "lc", "ld"];
const WORDS: [&str; 8] = ["a", "b7", "hello", "x y", "", "0", "true", "two words"];

fn gen_value(rng: &mut Rng) -> Option<String> {
    if rng.chance(1, 4) {
        None
    } else {
        Some(rng.pick(&WORDS).to_string())
    }
}

fn gen_arg(rng: &mut Rng) -> String {
    match rng.below(6) {
        0 => format!("${{{}}}", rng.pick(&VARS)),
        1 => format!("p{}${{{}}}q", rng.below(10), rng.pick(&VARS)),
        2 => format!("${{{}}}${{{}}}", rng.pick(&VARS), rng.pick(&VARS)),
        _ => rng.pick(&WORDS).to_string(),
    }
}

fn gen_answer(rng: &mut Rng, n_lines: usize, weights: &[u32; 6]) -> Ans {
    match rng.weighted(weights) {
        0 => Ans::Cont(gen_value(rng)),
        1 => Ans::GotoLabel(gen_value(rng), if rng.chance(1, 12) { "nolabel".to_string() } else { rng.pick(&LABELS).to_string() }),
        2 => {
            let n = if rng.chance(1, 8) { n_lines + rng.usize(3) } else { rng.usize(n_lines.max(1)) };
            Ans::GotoLine(gen_value(rng), n)
        }
        3 => Ans::Error(format!("err-{}", rng.below(100))),
        4 => Ans::Crash(format!("crash {}", rng.below(100))),
        _ => Ans::Exit(match rng.below(7) {
            // (other spellings of zero and of small numbers: the value is parsed as an integer)
            6 => Some(rng.pick(&["00", "-0", "+0", "+1", "007", " 0", "0 ", "2147483647", "2147483648", "-2147483649", "4294967296", "99999999999999999999999999999999999999999", "256", "-256", "512", "65536", "16777216", "-2147483648", "1024"]).to_string()),
            0 => None,
            1 => Some("0".to_string()),
            2 => Some(rng.range(1, 200).to_string()),
            3 => Some((-rng.range(1, 200)).to_string()),
            4 => Some("abc".to_string()),
            _ => Some("".to_string()),
        }),
    }
}

pub fn generate_case(rng: &mut Rng) -> Case {
    let long_program = rng.chance(1, 60);
    let n_lines = match rng.below(4) {
        _ if long_program => 100 + rng.usize(200),
        0 => 1 + rng.usize(4),
        1 | 2 => 3 + rng.usize(12),
        _ => 10 + rng.usize(30),
    };
    // swarm: per-run weights of the answer kinds
    let mut weights: [u32; 6] = [10, 3, 3, 3, 1, 1];
    for w in weights.iter_mut().skip(1) {
        if rng.chance(1, 3) {
            *w = 0;
        } else if rng.chance(1, 4) {
            *w *= 3;
        }
    }
    let handler = if rng.chance(1, 2) {
        let n = 1 + rng.usize(3);
        let hw: [u32; 6] = [12, 1, 1, 2, if rng.chance(1, 3) { 2 } else { 0 }, if rng.chance(1, 3) { 2 } else { 0 }];
        Some(Handler { as_alias: rng.chance(1, 2), answers: (0..n).map(|_| gen_answer(rng, n_lines, &hw)).collect() })
    } else {
        None
    };
    let mut lines = vec![];
    for _ in 0..n_lines {
        let kind = match rng.below(12) {
            0 => LineKind::Empty,
            1 => LineKind::Comment,
            2 if rng.chance(1, 3) => LineKind::PreProcess,
            _ => LineKind::Cmd,
        };
        if kind != LineKind::Cmd {
            lines.push(Line { kind, label: None, out: None, cmd: None, args: vec![], answers: vec![] });
            continue;
        }
        let label = if rng.chance(1, 4) { Some(rng.pick(&LABELS).to_string()) } else { None };
        let has_cmd = if label.is_none() { !rng.chance(1, 25) } else { rng.chance(5, 6) };
        let cmd = if !has_cmd {
            None
        } else if rng.chance(1, 40) {
            Some("zz".to_string())
        } else if handler.is_some() && rng.chance(1, 40) {
            Some("on_error".to_string())
        } else if handler.is_some() && rng.chance(1, 25) {
            Some(if rng.chance(3, 4) { "reg".to_string() } else { "unreg".to_string() })
        } else {
            let n = *rng.pick(&NAMES);
            let al = aliases_of(n);
            if !al.is_empty() && rng.chance(1, 2) {
                Some(rng.pick(&al).clone())
            } else {
                Some(n.to_string())
            }
        };
        let out = if (cmd.is_some() && rng.chance(1, 2)) || (cmd.is_none() && rng.chance(1, 2)) { Some(rng.pick(&VARS).to_string()) } else { None };
        let n_args = if cmd.is_some() { rng.usize(4) } else { 0 };
        let args = (0..n_args).map(|_| gen_arg(rng)).collect();
        let n_ans = 1 + rng.usize(3);
        let answers = if cmd.is_some() { (0..n_ans).map(|_| gen_answer(rng, n_lines, &weights)).collect() } else { vec![] };
        lines.push(Line { kind, label, out, cmd, args, answers });
    }
    let n_init = rng.usize(3);
    let init = (0..n_init).map(|_| (rng.pick(&VARS).to_string(), rng.pick(&WORDS).to_string())).collect();
    Case {
        entropy: rng.next_u64(),
        file_mode: rng.chance(1, 4),
        crlf: rng.chance(1, 12),
        handler_initially: rng.chance(2, 3),
        handler,
        init,
        lines,
        budget: 50 + rng.below(350),
    }
}

// ------------------------------------------------------------------ execution

pub struct RealEnd {
    pub result: Result<Context, ScriptError>,
}

pub fn run_real(case: &Case, env: &WorkerEnv, run_dir: &str, halt: Option<std::sync::Arc<std::sync::atomic::AtomicBool>>) -> (Result<Context, ScriptError>, String) {
    let mut text = render(&case.lines);
    if case.crlf {
        text = text.replace('\n', "\r\n");
    }
    let context = build_context(case);
    let renv = sim::embedder_env(halt);
    if case.file_mode {
        let dir = env.jail_root.join(run_dir);
        let _ = std::fs::create_dir_all(&dir);
        let path = dir.join("main.ds");
        let _ = std::fs::write(&path, &text);
        let p = path.to_string_lossy().to_string();
        let r = runner::run_script_file(&p, context, Some(renv));
        let _ = std::fs::remove_dir_all(&dir);
        (r, p)
    } else {
        (runner::run_script(&text, context, Some(renv)), String::new())
    }
}

pub fn source_of(case: &Case, env: &WorkerEnv, run_dir: &str) -> String {
    if case.file_mode {
        env.jail_root.join(run_dir).join("main.ds").to_string_lossy().to_string()
    } else {
        String::new()
    }
}

pub struct C03;

impl Prop for C03 {
    fn id(&self) -> &'static str {
        "C03"
    }
    fn info(&self) -> PropInfo {
        PropInfo {
            level: "exploration",
            rule: "seeded programs of 1-40 lines over scripted harness commands (every result kind incl. error/crash/exit, labels incl. duplicates and undefined, line jumps incl. past the end, optional on_error handler that may continue/exit/crash, text or file); a run is non-trivial if it performed >= 3 command invocations; distinct = distinct abstract traces (event kinds, command names, instruction indexes, result kinds; values erased)",
            real: &["duckscript::parser", "duckscript::expansion", "duckscript::runner", "duckscript::types::command::Commands", "ScriptError"],
            stub: &["every command (scripted answers by design: the property is about the runner)", "out/err streams (in-memory)"],
            assumptions: &["arguments and values come from a benign subset (no $ % \\ # quote corners: those belong to C01/C02)", "the rendered text parses to the intended instruction (C01, not claimed)"],
            needs_jail: true,
            needs_duck: false,
            expected_probes: &["error-inside-jumped-to-region", "cont-none-deletes-after-goto", "duplicate-label-taken", "handler-crashes", "handler-exits", "jump-past-end", "exit-non-numeric", "file-mode-handler", "handler-registered-during-run"],
        }
    }
    fn runs(&self, tier: &str) -> u64 {
        if tier == "quick" { 150_000 } else { 6_000_000 }
    }
    fn generate(&self, rng: &mut Rng, _avoid: &[String]) -> Value {
        serde_json::to_value(generate_case(rng)).unwrap()
    }
    fn execute(&self, case: &Value, env: &WorkerEnv) -> Outcome {
        let case: Case = match serde_json::from_value(case.clone()) {
            Ok(c) => c,
            Err(e) => return Outcome::collect(Verdict::Inconclusive { reason: format!("bad case: {}", e) }, false),
        };
        let run_dir = "run".to_string();
        let source = source_of(&case, env, &run_dir);
        let m = model(&case, &source);
        install_world(&case, Some(m.calls.clone()));
        let res = std::panic::catch_unwind(std::panic::AssertUnwindSafe(|| run_real(&case, env, &run_dir, None)));
        for p in &m.probes {
            sim::with_core(|c| c.probe(p));
        }
        // fault kinds that actually fired in this run (result kinds delivered by the scripted peers)
        sim::with_core(|c| {
            let mut add: Vec<&str> = vec![];
            for e in &c.log {
                if let sim::Event::End { res, depth: 0, .. } = e {
                    match res.as_str() {
                        "Error" => add.push("F1"),
                        "Crash" => add.push("F2"),
                        "Exit" => add.push("F3"),
                        _ => {}
                    }
                }
            }
            if m.probes.iter().any(|p| *p == "handler-crashes" || *p == "handler-exits") {
                add.push("F5");
            }
            for k in add {
                *c.fired.entry(k.to_string()).or_insert(0) += 1;
            }
        });
        let verdict = match res {
            Err(_) => {
                let p = sim::take_panic().unwrap_or_default();
                Verdict::Fail { class: format!("panic@{}", sim::panic_site(&p)), detail: p }
            }
            Ok((result, _)) => {
                let online = sim::with_core(|c| c.violation.clone());
                if let Some((class, detail)) = online {
                    Verdict::Fail { class, detail }
                } else if world_invocations() != m.calls.len() {
                    Verdict::Fail { class: "call-divergence".to_string(), detail: format!("real run made {} invocations, model {}", world_invocations(), m.calls.len()) }
                } else {
                    match (&result, &m.end) {
                        (Ok(ctx), End::Ok(vars)) => {
                            let real: BTreeMap<String, String> = ctx.variables.iter().map(|(k, v)| (k.clone(), v.clone())).collect();
                            if &real == vars {
                                Verdict::Pass
                            } else {
                                Verdict::Fail { class: "final-variables".to_string(), detail: format!("real {:?} / model {:?}", real, vars) }
                            }
                        }
                        (Err(ScriptError::Runtime(msg, meta)), End::Err(line)) => {
                            let (l, s) = match meta {
                                Some(m) => (m.line, m.source.clone()),
                                None => (None, None),
                            };
                            let want_src = if source.is_empty() { None } else { Some(source.clone()) };
                            if l == Some(*line) && s == want_src {
                                Verdict::Pass
                            } else {
                                Verdict::Fail { class: "error-position".to_string(), detail: format!("real Err({:?}) at line {:?} source {:?} / model line {} source {:?}", msg, l, s, line, want_src) }
                            }
                        }
                        (Ok(_), End::Err(line)) => Verdict::Fail { class: "end-kind".to_string(), detail: format!("real Ok / model Err at line {}", line) },
                        (Err(e), End::Ok(_)) => Verdict::Fail { class: "end-kind".to_string(), detail: format!("real Err({}) / model Ok", e) },
                        (Err(e), End::Err(line)) => Verdict::Fail { class: "end-kind".to_string(), detail: format!("real Err of another kind ({}) / model Err at line {}", e, line) },
                    }
                }
            }
        };
        Outcome::collect(verdict, false)
    }
    fn shrink(&self, case: &Value) -> Vec<Value> {
        let case: Case = match serde_json::from_value(case.clone()) {
            Ok(c) => c,
            Err(_) => return vec![],
        };
        let mut out: Vec<Case> = vec![];
        // drop halves, then single lines
        let n = case.lines.len();
        if n > 3 {
            let mut c = case.clone();
            c.lines.truncate(n / 2);
            out.push(c);
            let mut c = case.clone();
            c.lines.drain(0..n / 2);
            out.push(c);
        }
        for i in 0..n {
            let mut c = case.clone();
            c.lines.remove(i);
            out.push(c);
        }
        if case.handler.is_some() {
            let mut c = case.clone();
            c.handler = None;
            out.push(c);
        }
        if case.file_mode {
            let mut c = case.clone();
            c.file_mode = false;
            out.push(c);
        }
        if !case.init.is_empty() {
            let mut c = case.clone();
            c.init.clear();
            out.push(c);
        }
        for i in 0..n {
            let l = &case.lines[i];
            if l.kind != LineKind::Cmd {
                continue;
            }
            if l.answers.len() > 1 {
                for keep in 0..l.answers.len() {
                    let mut c = case.clone();
                    c.lines[i].answers = vec![l.answers[keep].clone()];
                    out.push(c);
                }
            }
            if l.answers.len() == 1 && l.answers[0] != Ans::Cont(None) {
                let mut c = case.clone();
                c.lines[i].answers = vec![Ans::Cont(None)];
                out.push(c);
            }
            if !l.args.is_empty() {
                let mut c = case.clone();
                c.lines[i].args.clear();
                out.push(c);
            }
            if l.label.is_some() && l.cmd.is_some() {
                let mut c = case.clone();
                c.lines[i].label = None;
                out.push(c);
            }
            if l.out.is_some() {
                let mut c = case.clone();
                c.lines[i].out = None;
                out.push(c);
            }
            if let Some(cmd) = &l.cmd {
                if let Some(canon) = canonical(cmd) {
                    if canon != cmd {
                        let mut c = case.clone();
                        c.lines[i].cmd = Some(canon.to_string());
                        out.push(c);
                    }
                }
            }
        }
        if let Some(h) = &case.handler {
            if h.answers.len() > 1 {
                let mut c = case.clone();
                c.handler.as_mut().unwrap().answers.truncate(1);
                out.push(c);
            }
        }
        if case.entropy != 0 {
            let mut c = case.clone();
            c.entropy = 0;
            out.push(c);
        }
        out.into_iter().filter(|c| *c != case).map(|c| serde_json::to_value(c).unwrap()).collect()
    }
}
