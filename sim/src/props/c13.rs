//! C13 - setting the halt flag stops the run at the next instruction boundary.
//! Mode A: the flag is raised from inside at EVERY depth-0 boundary of a sampled program
//!         (before / after the in-flight command, during its error handler, from a nested
//!         invocation) - fault enumeration per program; oracle = prefix of the unhalted run.
//! Mode B: a second thread raises it at a scheduler-chosen instant (shuttle, seeded).

use crate::prop::{Outcome, Prop, PropInfo, Verdict, WorkerEnv};
use crate::props::c03;
use crate::props::gen;
use crate::rng::Rng;
use crate::sim::{self, Core, Event, Observer, StartInfo};
use duckscript::types::command::CommandResult;
use duckscript::types::env::Env;
use duckscript::types::error::ScriptError;
use duckscript::types::runtime::StateValue;
use serde::{Deserialize, Serialize};
use serde_json::Value;
use std::collections::{BTreeMap, HashMap};
use std::sync::atomic::{AtomicBool, Ordering};
use std::sync::Arc;

#[derive(Serialize, Deserialize, Clone, Debug, PartialEq)]
pub enum Program {
    Scripted(c03::Case),
    Sdk(gen::Program),
    /// a scripted program stored as two files: lines i .. 2i+2 are in `part.ds`, which `main.ds` includes in their
    /// place - so the last line of the included file and the line after the directive carry the same line number
    Split(c03::Case, usize),
}

#[derive(Serialize, Deserialize, Clone, Debug, PartialEq)]
pub enum Pos {
    Before,
    After,
    Handler,
    Nested,
}

#[derive(Serialize, Deserialize, Clone, Debug, PartialEq)]
pub enum Mode {
    /// every boundary (or only the listed one, used by the minimiser)
    A { only: Option<(u64, Pos)> },
    /// halter thread yields `yields` times before storing; scheduler "random" | "pct"
    B { sched: String, sched_seed: u64, yields: u32 },
    /// long haul: a small non-terminating loop runs without event recording and the flag is raised from inside at
    /// top-level instruction k (thousands to hundreds of thousands of instructions into the run)
    Long { k: u64 },
    /// a function that never returns by itself is called in condition position (`if spin`, `while spin`,
    /// `r = not spin`); the flag is raised from inside after `k` decorated invocations. The call runs inside the
    /// instruction in flight - that instruction, and with it the run, must still end promptly
    Spin { k: u64, shape: u8 },
}

#[derive(Serialize, Deserialize, Clone, Debug, PartialEq)]
pub struct Case {
    pub entropy: u64,
    pub mode: Mode,
    pub program: Program,
    /// the embedder's Env: 1 = built without writers (`Env::new(None, None, Some(flag))`), 2 = with writers whose
    /// flush fails (a closed pipe: halting must still return the context)
    #[serde(default)]
    pub env_kind: u8,
}

thread_local! {
    static ENV_KIND: std::cell::Cell<u8> = std::cell::Cell::new(0);
}

pub type Vars = BTreeMap<String, String>;

#[derive(Clone, Debug)]
pub struct RunResult {
    /// Ok(final variables) or Err(description)
    pub end: Result<Vars, String>,
    pub log: Vec<Event>,
    pub snapshots: Vec<Vars>,
}

// ------------------------------------------------------------------ observer

struct HaltObs {
    /// top-level instructions started after the flag was raised (counted even when events are not recorded)
    after: std::rc::Rc<std::cell::Cell<u64>>,
    /// the embedder's own handle of the flag; None = the embedder kept none (it handed its only handle to the run, as
    /// `Env::new(_, _, None)` or a watchdog that exits after storing does) and the flag is raised through the run's `Env`
    flag: Option<Arc<AtomicBool>>,
    at: Option<(u64, Pos)>,
    current_d0: Option<u64>,
    snapshots: std::rc::Rc<std::cell::RefCell<Vec<Vars>>>,
    done: bool,
}

impl HaltObs {
    fn raise(&mut self, core: &mut Core, how: &str, env: &Env) {
        if !self.done {
            self.done = true;
            let seq = core.next_seq();
            core.log.push(Event::Halt { seq, by: how.to_string() });
            *core.fired.entry("F6".to_string()).or_insert(0) += 1;
            match &self.flag {
                Some(f) => f.store(true, Ordering::SeqCst),
                None => env.halt.store(true, Ordering::SeqCst),
            }
        }
    }
}

impl Observer for HaltObs {
    fn on_start(&mut self, core: &mut Core, info: &StartInfo, _vars: &mut HashMap<String, String>, _s: &mut HashMap<String, StateValue>, _e: &mut Env) -> Option<CommandResult> {
        if let Some(k) = info.d0_index {
            if self.done {
                self.after.set(self.after.get() + 1);
            }
            self.current_d0 = Some(k);
        }
        if let Some((k, pos)) = self.at.clone() {
            if self.current_d0 == Some(k) {
                match pos {
                    Pos::Before if info.d0_index.is_some() => self.raise(core, "command:before", _e),
                    Pos::Handler if info.handler => self.raise(core, "command:handler", _e),
                    Pos::Nested if info.depth >= 1 => self.raise(core, "command:nested", _e),
                    _ => {}
                }
            }
        }
        None
    }
    fn on_end(&mut self, core: &mut Core, info: &StartInfo, r: &mut CommandResult, v: &mut HashMap<String, String>, _s: &mut HashMap<String, StateValue>, _e: &mut Env) {
        // the variables as they are once this instruction is complete: the command's own effects, then its
        // output variable as the runner will set it, then (after an error) whatever the handler did.
        // Command-less lines that follow (e.g. `x =`) are separate instructions and not part of it.
        if info.depth == 0 && !core.quiet {
            let mut after: Vars = v.iter().map(|(a, b)| (a.clone(), b.clone())).collect();
            if info.handler {
                if let Some(last) = self.snapshots.borrow_mut().last_mut() {
                    *last = after;
                }
            } else {
                if let Some(o) = &info.out_var {
                    match r {
                        CommandResult::Continue(x) | CommandResult::GoTo(x, _) | CommandResult::Exit(x) => match x {
                            Some(val) => {
                                after.insert(o.clone(), val.clone());
                            }
                            None => {
                                after.remove(o);
                            }
                        },
                        CommandResult::Error(_) => {
                            after.insert(o.clone(), "false".to_string());
                        }
                        CommandResult::Crash(_) => {}
                    }
                }
                self.snapshots.borrow_mut().push(after);
            }
        }
        if let Some((k, Pos::After)) = self.at.clone() {
            if info.d0_index == Some(k) {
                self.raise(core, "command:after", _e);
            }
        }
    }
}

// ------------------------------------------------------------------ running a program once

fn end_of(result: Result<duckscript::types::runtime::Context, ScriptError>) -> Result<Vars, String> {
    match result {
        Ok(ctx) => Ok(ctx.variables.iter().map(|(a, b)| (a.clone(), b.clone())).collect()),
        Err(ScriptError::Runtime(msg, meta)) => Err(format!("Runtime({:?}, line {:?})", msg, meta.and_then(|m| m.line))),
        Err(e) => Err(format!("{}", e)),
    }
}

fn run_program(program: &Program, env: &WorkerEnv, flag: Arc<AtomicBool>) -> Result<Vars, String> {
    match program {
        Program::Scripted(c) => {
            let mut c = c.clone();
            c.file_mode = false;
            c03::install_world(&c, None);
            let (r, _) = c03::run_real(&c, env, "run", Some(flag));
            end_of(r)
        }
        Program::Sdk(p) => end_of(gen::run_real(p, Some(flag), None)),
        Program::Split(c, i) => {
            let mut c = c.clone();
            c.file_mode = false;
            c03::install_world(&c, None);
            let text = c03::render(&c.lines);
            let lines: Vec<&str> = text.lines().collect();
            let (i, j) = (*i, 2 * *i + 2);
            // (file names reach the event log through error reports: only inside the chroot jail are they the same on
            // every worker; elsewhere the program runs as one text)
            if j > lines.len() || !env.chrooted {
                let (r, _) = c03::run_real(&c, env, "run", Some(flag));
                return end_of(r);
            }
            let mut main: Vec<String> = lines[..i].iter().map(|l| l.to_string()).collect();
            main.push("!include_files part.ds".to_string());
            main.extend(lines[j..].iter().map(|l| l.to_string()));
            let dir = env.jail_root.join("run13");
            let _ = std::fs::create_dir_all(&dir);
            let _ = std::fs::write(dir.join("part.ds"), format!("{}\n", lines[i..j].join("\n")));
            let path = dir.join("main.ds");
            let _ = std::fs::write(&path, format!("{}\n", main.join("\n")));
            let r = duckscript::runner::run_script_file(&path.to_string_lossy(), c03::build_context(&c), Some(sim::embedder_env(Some(flag))));
            let _ = std::fs::remove_dir_all(&dir);
            end_of(r)
        }
    }
}

/// One execution with the flag raised from inside at `at` (None = dry run). All executions of a case run
/// one after the other on the case's own fresh thread: the sequence as a whole is a pure function of the
/// case. Handle names differ from one execution to the next (the thread's RNG moves on), so comparisons
/// between executions go through `norm_handles`.
fn run_once(program: &Program, env: &WorkerEnv, at: Option<(u64, Pos)>, budget: u64) -> Result<RunResult, String> {
    let flag = Arc::new(AtomicBool::new(false));
    let snaps = std::rc::Rc::new(std::cell::RefCell::new(Vec::new()));
    // at odd boundaries the embedder keeps no handle of its own: the run's `Env` then holds the only one, and the flag is
    // raised through it (what a command does, or a watchdog thread that stores and exits)
    let sole = matches!(&at, Some((k, _)) if k % 2 == 1);
    let kept = if sole { None } else { Some(flag.clone()) };
    sim::reset(Some(Box::new(HaltObs { after: Default::default(), flag: kept, at, current_d0: None, snapshots: snaps.clone(), done: false })));
    sim::with_core(|c| {
        c.budget = budget;
        let k = ENV_KIND.with(|k| k.get());
        c.env_no_writers = k == 1;
        c.env_flush_fails = k == 2;
    });
    let res = std::panic::catch_unwind(std::panic::AssertUnwindSafe(|| run_program(program, env, flag)));
    let _ = sim::take_observer();
    let log = sim::with_core(|c| std::mem::take(&mut c.log));
    let snapshots = snaps.borrow().clone();
    match res {
        Ok(end) => Ok(normalise_run(RunResult { end, log, snapshots })),
        Err(_) => Err(sim::take_panic().unwrap_or_default()),
    }
}

fn norm_vars(v: &Vars, seen: &mut Vec<String>) -> Vars {
    v.iter().map(|(k, x)| (k.clone(), sim::norm_handles(x, seen))).collect()
}

/// rewrite handle names by order of first appearance in the log (snapshots and the end use the same table)
fn normalise_run(r: RunResult) -> RunResult {
    let mut seen: Vec<String> = vec![];
    let mut log = Vec::with_capacity(r.log.len());
    let mut snaps = Vec::with_capacity(r.snapshots.len());
    let mut snap_iter = r.snapshots.iter();
    for e in r.log.into_iter() {
        let e = match e {
            Event::Start { seq, depth, cmd, args, line, src_line, out, handler } => {
                let args = args.iter().map(|a| sim::norm_handles(a, &mut seen)).collect();
                Event::Start { seq, depth, cmd, args, line, src_line, out, handler }
            }
            Event::End { seq, depth, res, out } => Event::End { seq, depth, res, out: out.map(|o| sim::norm_handles(&o, &mut seen)) },
            Event::Emit { seq, args } => Event::Emit { seq, args: args.iter().map(|a| sim::norm_handles(a, &mut seen)).collect() },
            other => other,
        };
        log.push(e);
    }
    for sn in snap_iter.by_ref() {
        // (taken after the instructions' End events; by then every handle they mention has appeared in the log)
        snaps.push(norm_vars(sn, &mut seen));
    }
    let end = match r.end {
        Ok(v) => Ok(norm_vars(&v, &mut seen)),
        Err(e) => Err(sim::norm_handles(&e, &mut seen)),
    };
    RunResult { end, log, snapshots: snaps }
}

// ------------------------------------------------------------------ signatures

#[derive(Clone, Debug, PartialEq)]
enum Sig {
    Start(String, Vec<String>, usize, bool),
    End(String, Option<String>),
}

/// depth-0 Start/End events with values, sequence numbers dropped
fn d0_sigs(log: &[Event]) -> Vec<Sig> {
    let mut v = vec![];
    for e in log {
        match e {
            Event::Start { depth: 0, cmd, args, line, handler, .. } => v.push(Sig::Start(cmd.clone(), args.clone(), *line, *handler)),
            Event::End { depth: 0, res, out, .. } => v.push(Sig::End(res.clone(), out.clone())),
            _ => {}
        }
    }
    v
}

/// number of signature entries that belong to instructions 0..=k (instruction k's End and its handler included)
fn prefix_len(sigs: &[Sig], k: u64) -> usize {
    let mut starts = 0u64;
    for (i, s) in sigs.iter().enumerate() {
        if let Sig::Start(_, _, _, false) = s {
            if starts == k + 1 {
                return i;
            }
            starts += 1;
        }
    }
    sigs.len()
}

fn instruction_count(sigs: &[Sig]) -> u64 {
    sigs.iter().filter(|s| matches!(s, Sig::Start(_, _, _, false))).count() as u64
}

fn has_handler_in(sigs: &[Sig], k: u64) -> bool {
    let from = if k == 0 { 0 } else { prefix_len(sigs, k - 1) };
    let to = prefix_len(sigs, k);
    sigs[from..to].iter().any(|s| matches!(s, Sig::Start(_, _, _, true)))
}

fn has_nested_in(log: &[Event], k: u64) -> bool {
    let mut starts = 0u64;
    let mut inside = false;
    for e in log {
        if let Event::Start { depth, handler, .. } = e {
            if *depth == 0 && !*handler {
                inside = starts == k;
                starts += 1;
            } else if inside && *depth >= 1 {
                return true;
            }
        }
    }
    false
}

/// Check one halted run against the dry run. `k` = instruction in flight when the flag was raised.
/// instruction k is a condition evaluator (if / elseif / while / not) with nested invocations: the only place where a
/// halt request may end the instruction in flight early (a function called as the condition is cut where it would go
/// round again); script-implemented commands always run to their end
fn condition_call_in(log: &[Event], k: u64) -> bool {
    let mut starts = 0u64;
    let mut inside = false;
    for e in log {
        if let Event::Start { depth, handler, cmd, .. } = e {
            if *depth == 0 && !*handler {
                inside = starts == k && (cmd == "std::flowcontrol::If" || cmd == "std::flowcontrol::ElseIf" || cmd == "std::flowcontrol::While" || cmd == "std::Not");
                starts += 1;
            } else if inside && *depth >= 1 {
                return true;
            }
        }
    }
    false
}

/// `cut_short_ok`: instruction k runs a nested flow (a script-implemented command, a function called as its
/// condition) and the flag went up before or inside it: that flow may itself stop at the flag, so the instruction in
/// flight may end early with another answer and only part of its effects. Everything before it is compared exactly,
/// and nothing may start after it.
fn check_prefix(dry: &RunResult, dry_sigs: &[Sig], halted: &RunResult, k: u64, label: &str, cut_short_ok: bool) -> Option<(String, String)> {
    let hs = d0_sigs(&halted.log);
    let n = prefix_len(dry_sigs, k);
    let total = instruction_count(dry_sigs);
    if instruction_count(&hs) > k + 1 {
        let extra = hs.iter().filter_map(|s| if let Sig::Start(c, a, l, false) = s { Some((c, a, l)) } else { None }).nth((k + 1) as usize);
        return Some(("start-after-halt".to_string(), format!("{}: flag raised during instruction #{} but instruction {:?} was started afterwards", label, k, extra)));
    }
    if cut_short_ok {
        let n_prev = if k == 0 { 0 } else { prefix_len(dry_sigs, k - 1) };
        if hs.len() <= n_prev || hs[..n_prev + 1] != dry_sigs[..n_prev + 1] {
            return Some(("prefix-divergence".to_string(), format!("{}: halted run's depth-0 events up to the start of instruction #{} are not those of the unhalted run", label, k)));
        }
        return match &halted.end {
            Ok(_) => None,
            // (the instruction in flight may have been the one that ends the unhalted run with an error)
            Err(b) if k + 1 == total && dry.end.as_ref().err() == Some(b) => None,
            Err(b) => Some(("halted-run-failed".to_string(), format!("{}: halted run returned an error: {}", label, b))),
        };
    }
    if hs.len() < n || hs[..n] != dry_sigs[..n] || hs.len() > n {
        return Some(("prefix-divergence".to_string(), format!("{}: halted run's depth-0 events are not the first {} of the unhalted run's ({} seen)", label, n, hs.len())));
    }
    let last_in_dry = k + 1 == total;
    if last_in_dry {
        // the in-flight instruction was the dry run's last one: whatever ended the dry run ends this one too,
        // unless the dry run went on to fail at an instruction that never starts (unknown command / label)
        match (&dry.end, &halted.end) {
            (d, Ok(b)) => {
                // whatever follows instruction k in the unhalted run (command-less lines such as `x =`, or an
                // instruction that never starts) is not executed once the flag is up
                let want = match (dry.snapshots.get(k as usize), d) {
                    (Some(s), _) => Some(s),
                    (None, Ok(a)) => Some(a),
                    (None, Err(_)) => None,
                };
                if let Some(w) = want {
                    if w != b {
                        return Some(("variables-at-halt".to_string(), format!("{}: returned variables {:?} / variables after instruction #{} in the unhalted run {:?}", label, b, k, w)));
                    }
                }
            }
            (Err(a), Err(b)) => {
                if a != b {
                    return Some(("halted-run-failed".to_string(), format!("{}: halted run failed with {} / unhalted with {}", label, b, a)));
                }
            }
            (Ok(_), Err(b)) => return Some(("halted-run-failed".to_string(), format!("{}: halted run returned an error: {}", label, b))),
        }
    } else {
        match &halted.end {
            Err(b) => return Some(("halted-run-failed".to_string(), format!("{}: halted run returned an error: {}", label, b))),
            Ok(vars) => {
                if let Some(snap) = dry.snapshots.get(k as usize) {
                    if snap != vars {
                        return Some(("variables-at-halt".to_string(), format!("{}: returned variables {:?} / variables after instruction #{} in the unhalted run {:?}", label, vars, k, snap)));
                    }
                }
            }
        }
    }
    None
}

// ------------------------------------------------------------------ mode A

const DRY_BUDGET: u64 = 300;

fn probes_for(dry_log: &[Event], k: u64, core_probe: &mut Vec<String>) {
    // classify the boundary after instruction k
    let mut starts = 0u64;
    let mut line_k = None;
    let mut next_line = None;
    let mut cmd_k = String::new();
    for e in dry_log {
        if let Event::Start { depth: 0, handler: false, line, cmd, .. } = e {
            if starts == k {
                line_k = Some(*line);
                cmd_k = cmd.clone();
            } else if starts == k + 1 {
                next_line = Some(*line);
            }
            starts += 1;
        }
    }
    match (line_k, next_line) {
        (Some(a), Some(b)) if b <= a => core_probe.push("halt-on-back-edge".to_string()),
        (Some(a), Some(b)) if b > a + 1 => core_probe.push("halt-on-forward-jump".to_string()),
        (Some(_), None) => core_probe.push("halt-on-last-instruction".to_string()),
        _ => {}
    }
    if cmd_k.contains("EndWhile") || cmd_k.contains("EndForIn") || cmd_k.contains("::End") {
        core_probe.push("halt-on-loop-end-command".to_string());
    }
}

fn mode_a(program: &Program, env: &WorkerEnv, only: &Option<(u64, Pos)>) -> (Verdict, Vec<Event>, BTreeMap<String, u64>, BTreeMap<String, u64>) {
    let mut fired: BTreeMap<String, u64> = BTreeMap::new();
    let mut probes: BTreeMap<String, u64> = BTreeMap::new();
    let dry = match run_once(program, env, None, DRY_BUDGET) {
        Ok(d) => d,
        Err(p) => return (Verdict::Fail { class: format!("panic@{}", sim::panic_site(&p)), detail: p }, vec![], fired, probes),
    };
    let dry_sigs = d0_sigs(&dry.log);
    let total = instruction_count(&dry_sigs);
    let mut combined: Vec<Event> = dry.log.clone();
    let positions: Vec<(u64, Pos)> = match only {
        Some(x) => vec![x.clone()],
        None => {
            let mut v = vec![];
            for k in 0..total {
                v.push((k, Pos::Before));
                v.push((k, Pos::After));
                if has_handler_in(&dry_sigs, k) {
                    v.push((k, Pos::Handler));
                }
                if has_nested_in(&dry.log, k) {
                    v.push((k, Pos::Nested));
                }
            }
            v
        }
    };
    // the unhalted run is cut by the step budget. When the cut falls inside the nested run of a `subrun`, a halted run
    // whose nested run stops early never reaches the budget there: that last, artificially ended instruction is not
    // a boundary of the program
    let cut_in_subrun = sim::with_core(|c| c.budget_hit) || dry.log.iter().rev().find_map(|e| if let Event::End { depth: 0, res, .. } = e { Some(res == "Crash") } else { None }).unwrap_or(false);
    let last_is_subrun = dry_sigs.iter().rev().find_map(|s| if let Sig::Start(c, _, _, false) = s { Some(c == "subrun") } else { None }).unwrap_or(false);
    for (k, pos) in positions {
        if k >= total {
            continue;
        }
        if k + 1 == total && cut_in_subrun && last_is_subrun {
            continue;
        }
        let halted = match run_once(program, env, Some((k, pos.clone())), DRY_BUDGET) {
            Ok(h) => h,
            Err(p) => return (Verdict::Fail { class: format!("panic@{}", sim::panic_site(&p)), detail: p }, combined, fired, probes),
        };
        let raised = halted.log.iter().any(|e| matches!(e, Event::Halt { .. }));
        if !raised {
            continue;
        }
        *fired.entry("F6".to_string()).or_insert(0) += 1;
        *probes.entry(format!("halt-{:?}", pos).to_lowercase()).or_insert(0) += 1;
        if k % 2 == 1 {
            *probes.entry("halt-raised-through-the-only-handle".to_string()).or_insert(0) += 1;
        }
        let mut pv = vec![];
        probes_for(&dry.log, k, &mut pv);
        for p in pv {
            *probes.entry(p).or_insert(0) += 1;
        }
        let cut_short_ok = !matches!(pos, Pos::After | Pos::Handler) && condition_call_in(&dry.log, k);
        if let Some((class, detail)) = check_prefix(&dry, &dry_sigs, &halted, k, &format!("halt at #{} {:?}", k, pos), cut_short_ok) {
            let seq = combined.len() as u64;
            combined.push(Event::Note { seq, text: format!("--- halted run (k={}, {:?}) ---", k, pos) });
            combined.extend(halted.log.iter().cloned());
            return (Verdict::Fail { class, detail: format!("{} [k={} pos={:?}]", detail, k, pos) }, combined, fired, probes);
        }
    }
    if matches!(dry.end, Err(_)) {
        *probes.entry("program-ends-in-error".to_string()).or_insert(0) += 1;
    }
    let seq = combined.len() as u64;
    if fired.get("F6").copied().unwrap_or(0) > 0 {
        combined.push(Event::Halt { seq, by: "enumerated".to_string() });
    }
    combined.push(Event::Note { seq, text: format!("mode A: {} boundaries x positions enumerated ({} halted executions), all prefixes of this log", total, fired.get("F6").copied().unwrap_or(0)) });
    (Verdict::Pass, combined, fired, probes)
}

// ------------------------------------------------------------------ long haul

fn mode_long(k: u64, env: &WorkerEnv) -> (Verdict, Vec<Event>, BTreeMap<String, u64>, BTreeMap<String, u64>) {
    let mut fired: BTreeMap<String, u64> = BTreeMap::new();
    let mut probes: BTreeMap<String, u64> = BTreeMap::new();
    // a 4-line loop: two plain commands, one with an output variable, a jump back
    let line = |cmd: &str, out: Option<&str>, ans: c03::Ans| c03::Line { kind: c03::LineKind::Cmd, label: None, out: out.map(|s| s.to_string()), cmd: Some(cmd.to_string()), args: vec!["a".to_string()], answers: vec![ans] };
    let case = c03::Case {
        entropy: 0,
        file_mode: false,
        handler: None,
        handler_initially: true,
        crlf: false,
        init: vec![],
        lines: vec![line("k0", None, c03::Ans::Cont(None)), line("k1", Some("v0"), c03::Ans::Cont(Some("x".to_string()))), line("k2", None, c03::Ans::Cont(Some("y".to_string()))), line("k3", None, c03::Ans::GotoLine(None, 0))],
        budget: u64::MAX / 2,
    };
    let flag = Arc::new(AtomicBool::new(false));
    let after = std::rc::Rc::new(std::cell::Cell::new(0u64));
    let snaps = std::rc::Rc::new(std::cell::RefCell::new(Vec::new()));
    sim::reset(Some(Box::new(HaltObs { after: after.clone(), flag: if k % 2 == 1 { None } else { Some(flag.clone()) }, at: Some((k, Pos::Before)), current_d0: None, snapshots: snaps, done: false })));
    sim::with_core(|c| {
        c.budget = k + 2_000;
        c.quiet = true;
    });
    let res = std::panic::catch_unwind(std::panic::AssertUnwindSafe(|| run_program(&Program::Scripted(case), env, flag)));
    let _ = sim::take_observer();
    let (log, steps, budget_hit) = sim::with_core(|c| (std::mem::take(&mut c.log), c.steps, c.budget_hit));
    *fired.entry("F6".to_string()).or_insert(0) += 1;
    *probes.entry(format!("long-haul-halt-after-10^{}-instructions", (k as f64).log10().floor() as u32)).or_insert(0) += 1;
    let mut log = log;
    log.push(Event::Note { seq: 0, text: format!("long haul: events not recorded; {} decorated invocations, halt raised at top-level instruction {}", steps, k) });
    let verdict = match res {
        Err(_) => {
            let p = sim::take_panic().unwrap_or_default();
            Verdict::Fail { class: format!("panic@{}", sim::panic_site(&p)), detail: p }
        }
        Ok(end) => {
            if after.get() > 0 {
                Verdict::Fail { class: "start-after-halt".to_string(), detail: format!("long haul: flag raised during top-level instruction #{}; {} further top-level instructions were started", k, after.get()) }
            } else if budget_hit {
                Verdict::Fail { class: "not-halted".to_string(), detail: format!("long haul: flag raised at instruction #{} and the run went on to the step limit", k) }
            } else {
                match end {
                    Ok(_) => Verdict::Pass,
                    Err(e) => Verdict::Fail { class: "halted-run-failed".to_string(), detail: e },
                }
            }
        }
    };
    (verdict, log, fired, probes)
}

struct SpinObs {
    flag: Arc<AtomicBool>,
    at_step: u64,
    raised: bool,
    after_any: std::rc::Rc<std::cell::Cell<u64>>,
    after_d0: std::rc::Rc<std::cell::Cell<u64>>,
}

impl Observer for SpinObs {
    fn on_start(&mut self, core: &mut Core, info: &StartInfo, _v: &mut HashMap<String, String>, _s: &mut HashMap<String, StateValue>, e: &mut Env) -> Option<CommandResult> {
        if self.raised {
            self.after_any.set(self.after_any.get() + 1);
            if info.d0_index.is_some() {
                self.after_d0.set(self.after_d0.get() + 1);
            }
        } else if core.steps >= self.at_step && info.depth >= 1 {
            self.raised = true;
            *core.fired.entry("F6".to_string()).or_insert(0) += 1;
            self.flag.store(true, Ordering::SeqCst);
            e.halt.store(true, Ordering::SeqCst);
        }
        None
    }
    fn on_end(&mut self, _c: &mut Core, _i: &StartInfo, _r: &mut CommandResult, _v: &mut HashMap<String, String>, _s: &mut HashMap<String, StateValue>, _e: &mut Env) {}
}

fn spin_text(shape: u8) -> String {
    let head = "fn spin\n    while true\n        x = set 1\n    end\nend\n";
    match shape {
        0 => format!("{}if spin\n    y = set 2\nend\nz = set 3\n", head),
        1 => format!("{}while spin\n    y = set 2\nend\nz = set 3\n", head),
        _ => format!("{}r = not spin\nz = set 3\n", head),
    }
}

fn mode_spin(k: u64, shape: u8) -> (Verdict, Vec<Event>, BTreeMap<String, u64>, BTreeMap<String, u64>) {
    let mut fired: BTreeMap<String, u64> = BTreeMap::new();
    let mut probes: BTreeMap<String, u64> = BTreeMap::new();
    let flag = Arc::new(AtomicBool::new(false));
    let after_any = std::rc::Rc::new(std::cell::Cell::new(0u64));
    let after_d0 = std::rc::Rc::new(std::cell::Cell::new(0u64));
    sim::reset(Some(Box::new(SpinObs { flag: flag.clone(), at_step: k, raised: false, after_any: after_any.clone(), after_d0: after_d0.clone() })));
    const GRACE: u64 = 20_000;
    sim::with_core(|c| {
        c.budget = k + GRACE;
        c.quiet = true;
    });
    let mut context = gen::sdk_context();
    sim::decorate(&mut context.commands);
    let text = spin_text(shape);
    let res = std::panic::catch_unwind(std::panic::AssertUnwindSafe(|| duckscript::runner::run_script(&text, context, Some(sim::embedder_env(Some(flag.clone()))))));
    let _ = sim::take_observer();
    let (steps, budget_hit) = sim::with_core(|c| (c.steps, c.budget_hit));
    *fired.entry("F6".to_string()).or_insert(0) += 1;
    *probes.entry("halt-inside-a-condition-call-that-never-returns".to_string()).or_insert(0) += 1;
    let log = vec![Event::Note { seq: 0, text: format!("spin: events not recorded; {} decorated invocations, flag raised after {}, shape {}", steps, k, shape) }];
    let verdict = match res {
        Err(_) => {
            let p = sim::take_panic().unwrap_or_default();
            Verdict::Fail { class: format!("panic@{}", sim::panic_site(&p)), detail: p }
        }
        Ok(end) => {
            if budget_hit {
                Verdict::Fail { class: "not-halted".to_string(), detail: format!("a function that loops for ever is running as the condition of the instruction in flight (shape {}); the flag was raised after {} invocations and {} more were started before the step limit ended the run - the script never terminates", shape, k, after_any.get()) }
            } else if after_d0.get() > 0 {
                Verdict::Fail { class: "start-after-halt".to_string(), detail: format!("spin (shape {}): {} top-level instructions were started after the flag", shape, after_d0.get()) }
            } else {
                match end {
                    Ok(_) => Verdict::Pass,
                    Err(e) => Verdict::Fail { class: "halted-run-failed".to_string(), detail: e.to_string() },
                }
            }
        }
    };
    (verdict, log, fired, probes)
}

// ------------------------------------------------------------------ mode B (shuttle)

fn yield_hook() {
    shuttle::thread::sleep(std::time::Duration::from_millis(0));
}

struct SnapObs {
    snapshots: Vec<Vars>,
}

impl Observer for SnapObs {
    fn on_start(&mut self, _core: &mut Core, info: &StartInfo, vars: &mut HashMap<String, String>, _s: &mut HashMap<String, StateValue>, _e: &mut Env) -> Option<CommandResult> {
        if info.d0_index.is_some() {
            self.snapshots.push(vars.iter().map(|(a, b)| (a.clone(), b.clone())).collect());
        }
        None
    }
}

fn mode_b(program: &Program, env: &WorkerEnv, sched: &str, sched_seed: u64, yields: u32) -> (Verdict, Vec<Event>, BTreeMap<String, u64>, BTreeMap<String, u64>) {
    let mut fired: BTreeMap<String, u64> = BTreeMap::new();
    let mut probes: BTreeMap<String, u64> = BTreeMap::new();
    let budget = 4000u64;
    // reference: the same program without a halter (plain thread, no scheduler)
    let dry = match run_once(program, env, None, budget) {
        Ok(d) => d,
        Err(p) => return (Verdict::Fail { class: format!("panic@{}", sim::panic_site(&p)), detail: p }, vec![], fired, probes),
    };
    let dry_sigs = d0_sigs(&dry.log);

    let program2 = program.clone();
    let jail_root = env.jail_root.clone();
    let worker_id = env.worker_id;
    let chrooted = env.chrooted;
    let sched = sched.to_string();
    // the scheduled execution: runner + halter under shuttle's scheduler, on this same thread
    let scheduled = {
        sim::reset(None);
        sim::with_core(|c| {
            c.budget = budget;
            c.yield_hook = Some(yield_hook);
        });
        let result: Arc<std::sync::Mutex<Option<Result<Vars, String>>>> = Arc::new(std::sync::Mutex::new(None));
        let mut config = shuttle::Config::new();
        config.stack_size = 2 << 20;
        config.failure_persistence = shuttle::FailurePersistence::None;
        config.max_steps = shuttle::MaxSteps::FailAfter(2_000_000);
        config.silence_warnings = true;
        let result2 = result.clone();
        let body = move || {
            // the flag lives in the run's `Env` and in the halter only: once the halter has stored and exited, the `Env`
            // holds the only handle (a watchdog that sets the flag and goes away)
            let flag_r = Arc::new(AtomicBool::new(false));
            let flag_h = flag_r.clone();
            let program3 = program2.clone();
            let result3 = result2.clone();
            let jail = jail_root.clone();
            let runner = shuttle::thread::spawn(move || {
                let wenv = WorkerEnv { worker_id, jail_root: jail, chrooted, duck: None, avoid: vec![] };
                let end = run_program(&program3, &wenv, flag_r);
                sim::with_core(|c| c.note("runner-returned"));
                *result3.lock().unwrap() = Some(end);
            });
            let halter = shuttle::thread::spawn(move || {
                for _ in 0..yields {
                    shuttle::thread::sleep(std::time::Duration::from_millis(0));
                }
                sim::with_core(|c| {
                    let seq = c.next_seq();
                    c.log.push(Event::Halt { seq, by: "thread".to_string() });
                });
                flag_h.store(true, Ordering::SeqCst);
            });
            let _ = runner.join();
            let _ = halter.join();
        };
        let res = std::panic::catch_unwind(std::panic::AssertUnwindSafe(|| {
            if sched == "pct" {
                shuttle::Runner::new(shuttle::scheduler::PctScheduler::new_from_seed(sched_seed, 2, 1), config).run(body);
            } else {
                shuttle::Runner::new(shuttle::scheduler::RandomScheduler::new_from_seed(sched_seed, 1), config).run(body);
            }
        }));
        let log = sim::with_core(|c| {
            c.yield_hook = None;
            std::mem::take(&mut c.log)
        });
        let panic = if res.is_err() { Some(sim::take_panic().unwrap_or_default()) } else { None };
        let end = result.lock().unwrap().take();
        (log, end, panic)
    };
    let (log, end, panic) = scheduled;
    if let Some(p) = panic {
        return (Verdict::Fail { class: format!("panic@{}", sim::panic_site(&p)), detail: p }, log, fired, probes);
    }
    let end = match end {
        Some(e) => e,
        None => return (Verdict::Inconclusive { reason: "runner thread produced no result".to_string() }, log, fired, probes),
    };
    let normalised = normalise_run(RunResult { end, log, snapshots: vec![] });
    let (end, log) = (normalised.end, normalised.log);
    // where did the store land?
    let halt_seq = log.iter().find_map(|e| if let Event::Halt { seq, .. } = e { Some(*seq) } else { None });
    let halt_seq = match halt_seq {
        Some(s) => s,
        None => return (Verdict::Inconclusive { reason: "halter never ran".to_string() }, log, fired, probes),
    };
    // instruction in flight = last depth-0 non-handler Start before the Halt event
    let mut k: Option<u64> = None;
    let mut n = 0u64;
    let mut last_event_seq = 0u64;
    for e in &log {
        match e {
            Event::Start { seq, depth: 0, handler: false, .. } => {
                if *seq < halt_seq {
                    k = Some(n);
                }
                n += 1;
                last_event_seq = last_event_seq.max(*seq);
            }
            Event::End { seq, .. } | Event::Start { seq, .. } => last_event_seq = last_event_seq.max(*seq),
            _ => {}
        }
    }
    let _ = last_event_seq;
    let returned_seq = log.iter().find_map(|e| match e {
        Event::Note { seq, text } if text == "runner-returned" => Some(*seq),
        _ => None,
    });
    if returned_seq.map(|r| halt_seq > r).unwrap_or(false) {
        // the store landed after run_script had already returned: nothing to decide about halting;
        // the run must simply equal the unhalted reference
        let hs = d0_sigs(&log);
        *probes.entry("halt-after-return".to_string()).or_insert(0) += 1;
        if hs != dry_sigs || end.is_ok() != dry.end.is_ok() {
            return (Verdict::Fail { class: "prefix-divergence".to_string(), detail: "halt after return: run differs from the unhalted reference".to_string() }, log, fired, probes);
        }
        return (Verdict::Pass, log, fired, probes);
    }
    let halted = RunResult { end, log: log.clone(), snapshots: vec![] };
    let dry_total = instruction_count(&dry_sigs);
    let verdict = match k {
        None => {
            // raised before the first instruction started: no instruction may start at all
            let hs = d0_sigs(&log);
            *probes.entry("halt-before-first".to_string()).or_insert(0) += 1;
            if !hs.is_empty() {
                Verdict::Fail { class: "start-after-halt".to_string(), detail: format!("flag raised before the first instruction, yet {:?} was started", hs.first()) }
            } else {
                match &halted.end {
                    Ok(_) => Verdict::Pass,
                    Err(e) => Verdict::Fail { class: "halted-run-failed".to_string(), detail: e.clone() },
                }
            }
        }
        Some(k) => {
            let mut pv = vec![];
            probes_for(&dry.log, k, &mut pv);
            for p in pv {
                *probes.entry(p).or_insert(0) += 1;
            }
            if k + 1 < dry_total {
                // the store cut the run short (otherwise it may have landed after the natural end)
                *fired.entry("F6".to_string()).or_insert(0) += 1;
                *probes.entry("halt-from-thread".to_string()).or_insert(0) += 1;
            } else {
                *probes.entry("halt-at-or-after-last-instruction".to_string()).or_insert(0) += 1;
            }
            match check_prefix(&dry, &dry_sigs, &halted, k, &format!("thread halt (seq {}) during instruction #{}", halt_seq, k), condition_call_in(&dry.log, k)) {
                Some((class, detail)) => Verdict::Fail { class, detail },
                None => Verdict::Pass,
            }
        }
    };
    (verdict, log, fired, probes)
}

// ------------------------------------------------------------------ the property

pub struct C13;

fn gen_program(rng: &mut Rng, looping: bool) -> Program {
    if rng.chance(1, 2) {
        let mut c = c03::generate_case(rng);
        c.file_mode = false;
        if looping {
            // a backward goto that never ends on its own: the budget is the only way out
            let n = c.lines.len();
            c.lines.push(c03::Line { kind: c03::LineKind::Cmd, label: None, out: None, cmd: Some("k0".to_string()), args: vec![], answers: vec![c03::Ans::GotoLine(None, rng.usize(n + 1))] });
            c.budget = 100_000;
        } else {
            c.budget = 20 + rng.below(200);
            if c.lines.len() >= 2 && rng.chance(1, 5) {
                let i = rng.usize((c.lines.len() - 2) / 2 + 1);
                return Program::Split(c, i);
            }
        }
        Program::Scripted(c)
    } else {
        let mut p = gen::generate_program(rng, &gen::GenOpts { functions: true, faults: true, looping, halt_cmd: true, ..Default::default() });
        if rng.chance(1, 3) {
            // a command that runs a nested script with the same halt flag: once the flag is up neither run goes on
            let at = rng.usize(p.main.len() + 1);
            p.main.insert(at, gen::Stmt::Raw(format!("subrun {}", 2 + rng.usize(3))));
        }
        Program::Sdk(p)
    }
}

impl Prop for C13 {
    fn id(&self) -> &'static str {
        "C13"
    }
    fn info(&self) -> PropInfo {
        PropInfo {
            level: "fault_enumeration",
            rule: "one evaluation = one program. Mode A (3 of 4 runs): the program is first run unhalted (cut at 300 steps), then re-run once for EVERY depth-0 instruction boundary k and each applicable position (before the command body / after it / during its on_error handler / from a nested invocation), the halt flag being raised at exactly that point; each halted run must be the exact prefix of the unhalted one (events, Ok result, variables as after instruction k); at odd k the embedder keeps no handle of the flag and it is raised through the run's Env, which then holds the only one. Mode B (1 of 4): a halter thread raises the flag under shuttle's seeded random or PCT scheduler and exits, leaving the run's Env as the only holder. Long haul (1 of 250): a non-terminating 4-line loop runs 10^3 to 5*10^5 instructions without event recording before the flag is raised from inside; no further top-level instruction may start (faults_fired.F6 counts halted executions of all modes). Programs: scripted goto/error programs without SDK (incl. output-only lines, handler registered while running; one in five stored as two files, lines i..2i+2 in an included file, so that two adjacent instructions carry the same line number) and while/for-in/function programs over the real SDK, some non-terminating. Non-trivial = at least 3 steps and the flag was actually raised; distinct = distinct abstract traces of the combined log",
            real: &["duckscript::runner (poll site, result handling)", "duckscript::parser", "Env.halt: the std Arc<AtomicBool>", "SDK flow control (while/for/if/function/goto) in Sdk programs"],
            stub: &["harness commands (scripted answers, emit, cnd)", "OS scheduler (replaced by shuttle in mode B)", "out/err streams"],
            assumptions: &["a store that lands between a poll and the next command start is observationally the same as one landing inside that command (both are covered)", "mode B: the runner thread yields only inside decorated invocations and stream writes"],
            needs_jail: true,
            needs_duck: false,
            expected_probes: &["halt-before", "halt-after", "halt-handler", "halt-nested", "halt-on-back-edge", "halt-on-forward-jump", "halt-on-last-instruction", "halt-from-thread", "halt-on-loop-end-command", "halt-raised-through-the-only-handle"],
        }
    }
    fn runs(&self, tier: &str) -> u64 {
        if tier == "quick" { 6_000 } else { 60_000 }
    }
    fn generate(&self, rng: &mut Rng, avoid: &[String]) -> Value {
        let mode_b = rng.chance(1, 4);
        let looping = rng.chance(1, 4);
        let program = gen_program(rng, looping);
        let mode = if rng.chance(1, 300) && !avoid.iter().any(|a| a == "condition_call_never_returns") {
            Mode::Spin { k: 10 + rng.below(3000), shape: rng.below(3) as u8 }
        } else if rng.chance(1, 250) {
            // log-uniform between 10^3 and 5*10^5 instructions
            let e = 3.0 + (rng.below(2700) as f64) / 1000.0;
            Mode::Long { k: 10f64.powf(e) as u64 }
        } else if mode_b {
            let pct = !looping && rng.chance(1, 4);
            Mode::B { sched: if pct { "pct".to_string() } else { "random".to_string() }, sched_seed: rng.next_u64(), yields: { let m = if rng.chance(1, 2) { 12 } else { 120 }; rng.below(m) as u32 } }
        } else {
            Mode::A { only: None }
        };
        let env_kind = match rng.below(12) {
            0 => 1,
            1 => 2,
            _ => 0,
        };
        serde_json::to_value(Case { entropy: rng.next_u64(), mode, program, env_kind }).unwrap()
    }
    fn execute(&self, case: &Value, env: &WorkerEnv) -> Outcome {
        let case: Case = match serde_json::from_value(case.clone()) {
            Ok(c) => c,
            Err(e) => return Outcome::collect(Verdict::Inconclusive { reason: format!("bad case: {}", e) }, true),
        };
        ENV_KIND.with(|k| k.set(case.env_kind));
        let (verdict, log, mut fired, mut probes) = match &case.mode {
            Mode::A { only } => mode_a(&case.program, env, only),
            Mode::B { sched, sched_seed, yields } => mode_b(&case.program, env, sched, *sched_seed, *yields),
            Mode::Long { k } => mode_long(*k, env),
            Mode::Spin { k, shape } => mode_spin(*k, *shape),
        };
        ENV_KIND.with(|k| k.set(0));
        match case.env_kind {
            1 => *probes.entry("env-without-writers".to_string()).or_insert(0) += 1,
            2 => {
                *probes.entry("env-whose-flush-fails".to_string()).or_insert(0) += 1;
                *fired.entry("F7".to_string()).or_insert(0) += 0;
            }
            _ => {}
        }
        sim::reset(None);
        sim::with_core(|c| {
            c.log = log;
            c.fired = fired;
            c.probes = probes;
        });
        Outcome::collect(verdict, true)
    }
    fn shrink(&self, case: &Value) -> Vec<Value> {
        let case: Case = match serde_json::from_value(case.clone()) {
            Ok(c) => c,
            Err(_) => return vec![],
        };
        let mut out: Vec<Case> = vec![];
        // pin mode A to the failing position when the detail tells it (done by the driver through `pin`)
        let progs: Vec<Program> = match &case.program {
            Program::Scripted(c) => {
                let v = serde_json::to_value(c).unwrap();
                c03::C03.shrink(&v).into_iter().filter_map(|x| serde_json::from_value::<c03::Case>(x).ok()).map(Program::Scripted).collect()
            }
            Program::Sdk(p) => gen::shrink_program(p).into_iter().map(Program::Sdk).collect(),
            Program::Split(_, _) => vec![],
        };
        if let Mode::A { only: None } = &case.mode {
            // try to pin to a single boundary first: cheap and makes every later step faster
            for k in 0..12u64 {
                for pos in [Pos::Before, Pos::After, Pos::Handler, Pos::Nested] {
                    let mut c = case.clone();
                    c.mode = Mode::A { only: Some((k, pos)) };
                    out.push(c);
                }
            }
        }
        if let Mode::A { only: Some((k, pos)) } = &case.mode {
            if *k > 0 {
                let mut c = case.clone();
                c.mode = Mode::A { only: Some((k - 1, pos.clone())) };
                out.push(c);
            }
        }
        if let Mode::Long { k } = &case.mode {
            for kk in [k / 2, k * 9 / 10, k - 1] {
                if kk > 0 && kk != *k {
                    let mut c = case.clone();
                    c.mode = Mode::Long { k: kk };
                    out.push(c);
                }
            }
        }
        if let Mode::B { sched, sched_seed, yields } = &case.mode {
            if *yields > 0 {
                for y in [0, yields / 2, yields - 1] {
                    let mut c = case.clone();
                    c.mode = Mode::B { sched: sched.clone(), sched_seed: *sched_seed, yields: y };
                    out.push(c);
                }
            }
            if sched == "pct" {
                let mut c = case.clone();
                c.mode = Mode::B { sched: "random".to_string(), sched_seed: *sched_seed, yields: *yields };
                out.push(c);
            }
        }
        for p in progs {
            let mut c = case.clone();
            c.program = p;
            out.push(c);
        }
        if case.entropy != 0 {
            let mut c = case.clone();
            c.entropy = 0;
            out.push(c);
        }
        out.into_iter().filter(|c| *c != case).map(|c| serde_json::to_value(c).unwrap()).collect()
    }
}
