//! Worker process: reads tasks on stdin, runs each case on a fresh thread, answers on stdout.
//!
//! Protocol (one line each):
//!   parent -> worker : {"t":"gen","seed":S,"from":a,"to":b,"digests":bool,"samples":n}
//!                      {"t":"case","id":k,"case":{...}}
//!   worker -> parent : B <i>            about to execute run / case id i
//!                      R <json>         full result (failures, inconclusive, samples, every case task)
//!                      G <i> <digest>   per-run digest (when asked)
//!                      S <json>         chunk summary
//!                      D                task done

use crate::entropy;
use crate::prop::{entropy_of, Outcome, Prop, Verdict, WorkerEnv};
use crate::rng::{sub_seed, Rng};
use crate::sim;
use serde_json::{json, Value};
use std::collections::BTreeMap;
use std::io::{BufRead, Write};
use std::path::PathBuf;
use std::sync::mpsc;
use std::sync::Arc;
use std::time::Duration;

pub const RUN_TIMEOUT_S: u64 = 60;

pub enum RunEnd {
    Done(Outcome),
    HarnessPanic(String),
    /// what was in flight, wall-clock seconds, CPU seconds of this process during the run
    Hang(String, u64, u64),
}

pub fn run_on_fresh_thread(prop: &'static dyn Prop, case: Value, env: Arc<WorkerEnv>) -> RunEnd {
    let (tx, rx) = mpsc::channel();
    let seed = entropy_of(&case);
    let builder = std::thread::Builder::new().stack_size(8 << 20);
    let handle = builder.spawn(move || {
        entropy::seed_thread(seed);
        sim::phase("harness: start of the run");
        sim::reset(None);
        let root = env.jail_root.to_string_lossy().to_string();
        sim::set_redact_prefix(if root == "/" { None } else { Some(root) });
        let _ = sim::take_panic();
        let res = std::panic::catch_unwind(std::panic::AssertUnwindSafe(|| prop.execute(&case, &env)));
        let msg = match res {
            Ok(o) => RunEnd::Done(o),
            Err(_) => RunEnd::HarnessPanic(sim::take_panic().unwrap_or_else(|| "?".to_string())),
        };
        sim::reset(None);
        sim::phase("harness: between runs");
        let _ = tx.send(msg);
    });
    let handle = match handle {
        Ok(h) => h,
        Err(e) => return RunEnd::HarnessPanic(format!("thread spawn failed: {}", e)),
    };
    // A run that does not answer within RUN_TIMEOUT_S of wall-clock is a hang if this process was really computing
    // for (most of) that time. On an oversubscribed machine a starved worker is not hanging: in that case waiting goes
    // on until the process has burnt RUN_BUSY_S of CPU in this run, or RUN_BLOCKED_S of wall-clock have passed
    // (a run that blocks without computing).
    let cpu0 = process_cpu_seconds();
    let started = std::time::Instant::now();
    let mut wait = Duration::from_secs(RUN_TIMEOUT_S);
    loop {
        match rx.recv_timeout(wait) {
            Ok(end) => {
                let _ = handle.join();
                return end;
            }
            Err(_) => {
                let busy = process_cpu_seconds() - cpu0;
                if busy >= RUN_BUSY_S as f64 || started.elapsed().as_secs() >= RUN_BLOCKED_S {
                    return RunEnd::Hang(format!("{}; {}", sim::in_flight(), describe_working_directory()), started.elapsed().as_secs(), busy as u64);
                }
                wait = Duration::from_secs(5);
            }
        }
    }
}

/// for the hang report: where the process stands and how much there is below it (bounded walk)
fn describe_working_directory() -> String {
    let cwd = std::env::current_dir().map(|p| p.to_string_lossy().to_string()).unwrap_or_else(|e| format!("<{}>", e));
    let mut entries = 0u64;
    let mut max_depth = 0u32;
    let mut stack: Vec<(std::path::PathBuf, u32)> = vec![(std::path::PathBuf::from("."), 0)];
    let t0 = std::time::Instant::now();
    let mut sample = String::new();
    while let Some((d, depth)) = stack.pop() {
        if entries > 200_000 || t0.elapsed().as_secs() > 5 {
            break;
        }
        if let Ok(rd) = std::fs::read_dir(&d) {
            for e in rd.flatten() {
                entries += 1;
                max_depth = max_depth.max(depth + 1);
                if sample.len() < 300 && depth < 2 {
                    sample.push_str(&e.path().to_string_lossy());
                    sample.push(' ');
                }
                if e.file_type().map(|t| t.is_dir()).unwrap_or(false) {
                    stack.push((e.path(), depth + 1));
                }
            }
        }
    }
    format!("cwd {} holds {}{} entries, depth {}: {}", cwd, if entries > 200_000 { "more than " } else { "" }, entries, max_depth, sample.trim_end())
}

pub const RUN_BUSY_S: u64 = 120;
pub const RUN_BLOCKED_S: u64 = 600;

fn process_cpu_seconds() -> f64 {
    let mut ts = libc::timespec { tv_sec: 0, tv_nsec: 0 };
    unsafe {
        libc::clock_gettime(libc::CLOCK_PROCESS_CPUTIME_ID, &mut ts);
    }
    ts.tv_sec as f64 + ts.tv_nsec as f64 / 1e9
}

fn merge(into: &mut BTreeMap<String, u64>, from: &BTreeMap<String, u64>) {
    for (k, v) in from {
        *into.entry(k.clone()).or_insert(0) += v;
    }
}

pub fn result_json(i: u64, case: &Value, o: &Outcome, with_log: bool) -> Value {
    let mut v = json!({
        "i": i,
        "verdict": o.verdict,
        "h": o.trace_hash,
        "nt": o.nontrivial,
        "steps": o.steps,
        "digest": o.digest(),
        "case": case,
    });
    if with_log {
        // the log travels to the parent (and into the replay file) for people to read; a run of hundreds of thousands
        // of events is shown by its head and tail - the digest above is over all of it
        const KEEP: usize = 2000;
        if o.log.len() > 2 * KEEP + 1 {
            let mut shown: Vec<Value> = o.log[..KEEP].iter().map(|e| serde_json::to_value(e).unwrap_or(Value::Null)).collect();
            shown.push(json!({"ev": "Note", "seq": 0, "text": format!("... {} events not shown ...", o.log.len() - 2 * KEEP)}));
            shown.extend(o.log[o.log.len() - KEEP..].iter().map(|e| serde_json::to_value(e).unwrap_or(Value::Null)));
            v["log"] = Value::Array(shown);
        } else {
            v["log"] = serde_json::to_value(&o.log).unwrap_or(Value::Null);
        }
    }
    v
}

pub fn worker_main(prop: &'static dyn Prop, worker_id: usize, jail: Option<PathBuf>, duck: Option<PathBuf>, avoid: Vec<String>) -> i32 {
    sim::install_panic_hook();
    // The protocol channel is a private duplicate of stdout; fd 1 and 2 themselves go to /dev/null so
    // that nothing the code under test prints (e.g. the `!print` pre-processor) can corrupt it.
    let mut out = unsafe {
        use std::os::unix::io::FromRawFd;
        let proto = libc::dup(1);
        let null = libc::open(b"/dev/null\0".as_ptr() as *const libc::c_char, libc::O_WRONLY);
        if null >= 0 {
            libc::dup2(null, 1);
            libc::dup2(null, 2);
            libc::close(null);
        }
        std::io::BufWriter::new(std::fs::File::from_raw_fd(proto))
    };
    // jail
    let mut chrooted = false;
    let mut jail_root = PathBuf::from("/dev/shm");
    if let Some(dir) = jail {
        let _ = std::fs::create_dir_all(&dir);
        jail_root = dir.clone();
        if prop.info().needs_jail && !prop.info().needs_duck {
            // marker by which code inside the jail can tell that "/" is the jail and not the real root
            let _ = std::fs::write(dir.join(".dsim-jail"), b"");
            if std::os::unix::fs::chroot(&dir).is_ok() && std::env::set_current_dir("/").is_ok() {
                chrooted = true;
                jail_root = PathBuf::from("/");
            } else {
                let _ = std::env::set_current_dir(&dir);
            }
        } else {
            let _ = std::env::set_current_dir(&dir);
        }
    }
    // load the shared SDK registry on this (main) thread, so that no run's thread pays for it and
    // every run starts from the same per-thread hash-key counter
    let _ = crate::props::gen::sdk_commands();
    let _ = crate::props::gen::script_command_names();
    prop.warm_up();
    let env = Arc::new(WorkerEnv {
        worker_id,
        jail_root,
        chrooted,
        duck,
        avoid,
    });
    let stdin = std::io::stdin();
    {
        let _ = writeln!(out, "H {}", json!({"chroot": chrooted}));
        let _ = out.flush();
    }
    for line in stdin.lock().lines() {
        let line = match line {
            Ok(l) => l,
            Err(_) => break,
        };
        if line.trim().is_empty() {
            continue;
        }
        let task: Value = match serde_json::from_str(&line) {
            Ok(v) => v,
            Err(e) => {
                eprintln!("dsim worker: bad task: {}", e);
                return 2;
            }
        };
        match task["t"].as_str() {
            Some("gen") => {
                let seed = task["seed"].as_u64().unwrap_or(1);
                let from = task["from"].as_u64().unwrap_or(0);
                let to = task["to"].as_u64().unwrap_or(0);
                let digests = task["digests"].as_bool().unwrap_or(false);
                let samples = task["samples"].as_u64().unwrap_or(0);
                let mut n = 0u64;
                let mut steps = 0u64;
                let mut fired = BTreeMap::new();
                let mut probes = BTreeMap::new();
                let mut hashes: Vec<u64> = Vec::new();
                let mut inconclusive = 0u64;
                let mut fails_sent = 0u64;
                for i in from..to {
                    let s = sub_seed(seed, prop.id(), i);
                    let mut rng = Rng::new(s);
                    let case = prop.generate(&mut rng, &env.avoid);
                    let _ = writeln!(out, "B {}", i);
                    let _ = out.flush();
                    match run_on_fresh_thread(prop, case.clone(), env.clone()) {
                        RunEnd::Done(o) => {
                            n += 1;
                            steps += o.steps;
                            merge(&mut fired, &o.fired);
                            merge(&mut probes, &o.probes);
                            if o.nontrivial {
                                hashes.push(o.trace_hash);
                            }
                            if digests {
                                let _ = writeln!(out, "G {} {}", i, o.digest());
                            }
                            match &o.verdict {
                                Verdict::Pass => {
                                    if i < samples {
                                        let _ = writeln!(out, "R {}", result_json(i, &case, &o, true));
                                    }
                                }
                                Verdict::Inconclusive { .. } => {
                                    inconclusive += 1;
                                }
                                Verdict::Fail { .. } => {
                                    fails_sent += 1;
                                    if fails_sent <= 8 {
                                        let _ = writeln!(out, "R {}", result_json(i, &case, &o, true));
                                    } else {
                                        let _ = writeln!(out, "R {}", json!({"i": i, "verdict": o.verdict, "h": o.trace_hash, "nt": o.nontrivial, "steps": o.steps, "digest": o.digest()}));
                                    }
                                }
                            }
                        }
                        RunEnd::HarnessPanic(p) => {
                            let _ = writeln!(out, "X {}", json!({"i": i, "panic": p, "case": case}));
                            let _ = out.flush();
                            return 2;
                        }
                        RunEnd::Hang(what, wall, cpu) => {
                            let _ = writeln!(out, "T {}", json!({"i": i, "case": case, "in_flight": what, "wall_s": wall, "cpu_s": cpu}));
                            let _ = out.flush();
                            // the stuck thread cannot be cancelled: this worker ends here
                            std::process::exit(3);
                        }
                    }
                }
                hashes.sort_unstable();
                hashes.dedup();
                let _ = writeln!(
                    out,
                    "S {}",
                    json!({"n": n, "steps": steps, "fired": fired, "probes": probes, "hashes": hashes, "inconclusive": inconclusive})
                );
                let _ = writeln!(out, "D");
                let _ = out.flush();
            }
            Some("case") => {
                let id = task["id"].as_u64().unwrap_or(0);
                let case = task["case"].clone();
                let _ = writeln!(out, "B {}", id);
                let _ = out.flush();
                match run_on_fresh_thread(prop, case.clone(), env.clone()) {
                    RunEnd::Done(o) => {
                        let mut r = result_json(id, &case, &o, true);
                        r["fired"] = json!(o.fired);
                        r["probes"] = json!(o.probes);
                        let _ = writeln!(out, "R {}", r);
                    }
                    RunEnd::HarnessPanic(p) => {
                        let _ = writeln!(out, "X {}", json!({"i": id, "panic": p, "case": case}));
                        let _ = out.flush();
                        return 2;
                    }
                    RunEnd::Hang(what, wall, cpu) => {
                        let _ = writeln!(out, "T {}", json!({"i": id, "case": case, "in_flight": what, "wall_s": wall, "cpu_s": cpu}));
                        let _ = out.flush();
                        std::process::exit(3);
                    }
                }
                let _ = writeln!(out, "D");
                let _ = out.flush();
            }
            _ => {
                eprintln!("dsim worker: unknown task");
                return 2;
            }
        }
    }
    0
}
