//! dsim - deterministic simulation with fault injection for duckscript.
#![allow(dead_code)]
mod driver;
mod entropy;
mod prop;
mod props;
mod rng;
mod sim;
mod worker;

use std::path::PathBuf;

fn usage() -> i32 {
    eprintln!("usage: dsim check <Cxx> --tier quick|thorough [--seed N] [--runs N] [--from N] [--workers N] [--duck PATH]");
    eprintln!("       dsim replay <file> [--duck PATH]");
    eprintln!("       dsim worker <Cxx> --id N --jail DIR [--duck PATH] [--avoid a,b]   (internal)");
    eprintln!("       dsim list");
    2
}

fn arg_value(args: &[String], name: &str) -> Option<String> {
    args.iter().position(|a| a == name).and_then(|i| args.get(i + 1)).cloned()
}

fn real_main() -> i32 {
    let args: Vec<String> = std::env::args().collect();
    if args.len() < 2 {
        return usage();
    }
    match args[1].as_str() {
        "list" => {
            for p in props::all() {
                println!("{}", p.id());
            }
            0
        }
        "worker" => {
            let prop = match args.get(2).and_then(|id| props::by_id(id)) {
                Some(p) => p,
                None => return usage(),
            };
            let id = arg_value(&args, "--id").and_then(|v| v.parse().ok()).unwrap_or(0);
            let jail = arg_value(&args, "--jail").map(PathBuf::from);
            let duck = arg_value(&args, "--duck").map(PathBuf::from);
            let avoid = arg_value(&args, "--avoid").map(|s| s.split(',').map(|x| x.to_string()).collect()).unwrap_or_default();
            worker::worker_main(prop, id, jail, duck, avoid)
        }
        "check" => {
            let prop = match args.get(2).and_then(|id| props::by_id(id)) {
                Some(p) => p,
                None => {
                    eprintln!("unknown property");
                    return 2;
                }
            };
            let tier = arg_value(&args, "--tier").or_else(|| std::env::var("VERIF_TIER").ok()).unwrap_or_else(|| "quick".to_string());
            if tier != "quick" && tier != "thorough" {
                return usage();
            }
            let seed = arg_value(&args, "--seed")
                .or_else(|| std::env::var("VERIF_SEED").ok())
                .and_then(|v| v.trim().parse::<u64>().ok())
                .unwrap_or(1);
            let workers = arg_value(&args, "--workers")
                .and_then(|v| v.parse().ok())
                .unwrap_or_else(|| std::thread::available_parallelism().map(|n| n.get()).unwrap_or(4).min(16));
            let opts = driver::CheckOpts {
                tier,
                seed,
                runs: arg_value(&args, "--runs").and_then(|v| v.parse().ok()),
                workers,
                duck: arg_value(&args, "--duck").map(PathBuf::from),
                from: arg_value(&args, "--from").and_then(|v| v.parse().ok()).unwrap_or(0),
            };
            println!("dsim: property={} tier={} VERIF_SEED={} workers={}", prop.id(), opts.tier, opts.seed, opts.workers);
            driver::check(prop, opts)
        }
        "replay" => {
            let path = match args.get(2) {
                Some(p) => p.clone(),
                None => return usage(),
            };
            let file: serde_json::Value = match std::fs::read_to_string(&path).ok().and_then(|t| serde_json::from_str(&t).ok()) {
                Some(v) => v,
                None => {
                    eprintln!("cannot read {}", path);
                    return 2;
                }
            };
            let prop = match file["property"].as_str().and_then(props::by_id) {
                Some(p) => p,
                None => {
                    eprintln!("replay file names no known property");
                    return 2;
                }
            };
            driver::replay(prop, &path, arg_value(&args, "--duck").map(PathBuf::from))
        }
        _ => usage(),
    }
}

fn main() {
    std::process::exit(real_main());
}
