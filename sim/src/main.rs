fn main(){}
