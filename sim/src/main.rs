//! dsim - deterministic simulation with fault injection for duckscript.
#![allow(dead_code)]
mod driver;
mod entropy;
mod prop;
mod props;
mod rng;
mod sim;
mod worker;

use std::path::PathBuf;

fn usage() -> i32 {
    eprintln!("usage: dsim check <Cxx> --tier quick|thorough [--seed N] [--runs N] [--from N] [--workers N] [--duck PATH]");
    eprintln!("       dsim replay <file> [--duck PATH]");
    eprintln!("       dsim worker <Cxx> --id N --jail DIR [--duck PATH] [--avoid a,b]   (internal)");
    eprintln!("       dsim list");
    2
}

fn arg_value(args: &[String], name: &str) -> Option<String> {
    args.iter().position(|a| a == name).and_then(|i| args.get(i + 1)).cloned()
}

fn real_main() -> i32 {
    let args: Vec<String> = std::env::args().collect();
    if args.len() < 2 {
        return usage();
    }
    match args[1].as_str() {
        "commands" => {
            let mut c = duckscript::types::command::Commands::new();
            duckscriptsdk::load(&mut c).unwrap();
            for n in c.get_all_command_names() {
                let cmd = c.get(&n).unwrap();
                println!("{} {:?} {}", n, cmd.aliases(), if cmd.help().contains("#### Source:") { "SCRIPT" } else { "" });
            }
            0
        }
        "one" => {
            // debugging aid: generate run <index> of a property, execute it in one worker, print everything
            let prop = match args.get(2).and_then(|id| props::by_id(id)) {
                Some(p) => p,
                None => return usage(),
            };
            let seed = arg_value(&args, "--seed").and_then(|v| v.parse::<u64>().ok()).unwrap_or(1);
            let index = arg_value(&args, "--index").and_then(|v| v.parse::<u64>().ok()).unwrap_or(0);
            // the case as the main stream generates it (known-finding shapes avoided), after `--history k` earlier
            // runs of the stream in the same worker process
            let avoid: Vec<String> = driver::load_known().iter().filter(|k| k.property == prop.id() && k.status == "known").map(|k| k.matcher.clone()).collect();
            let history = arg_value(&args, "--history").and_then(|v| v.parse::<u64>().ok()).unwrap_or(0).min(index);
            let mut cases: Vec<serde_json::Value> = (index - history..=index).map(|i| driver::regenerate_case(prop, seed, i, &avoid)).collect();
            // `--pre a-b`: runs a..=b of the stream first (any order of indexes)
            if let Some(r) = arg_value(&args, "--pre") {
                // (several ranges separated by commas: `267-267,360-360`)
                let mut pre: Vec<serde_json::Value> = vec![];
                for part in r.split(',') {
                    let mut it = part.split('-').filter_map(|x| x.parse::<u64>().ok());
                    if let (Some(a), Some(b)) = (it.next(), it.next()) {
                        pre.extend((a..=b).map(|i| driver::regenerate_case(prop, seed, i, &avoid)));
                    }
                }
                pre.extend(cases);
                cases = pre;
            }
            if args.iter().any(|a| a == "--print") {
                println!("{}", serde_json::to_string_pretty(cases.last().unwrap()).unwrap());
            }
            let t0 = std::time::Instant::now();
            let pool = driver::Pool { prop, workers: 1, duck: arg_value(&args, "--duck").map(PathBuf::from), avoid };
            match pool.eval_cases(&cases) {
                Ok(rs) => {
                    let r = rs.last().unwrap();
                    println!("verdict={} steps={} nt={} wall={:.3}s", r["verdict"], r["steps"], r["nt"], t0.elapsed().as_secs_f64());
                    if args.iter().any(|a| a == "--log") {
                        if let Some(l) = r["log"].as_array() {
                            for e in l {
                                println!("  {}", e);
                            }
                        }
                    }
                    println!("probes={} fired={}", r["probes"], r["fired"]);
                }
                Err(e) => println!("error: {}", e),
            }
            driver::clean_own_jails(1);
            0
        }
        "bench" => {
            let t = std::time::Instant::now();
            for _ in 0..200 {
                let c = props::gen::sdk_context();
                std::hint::black_box(&c);
            }
            println!("sdk_context: {:?} per call", t.elapsed() / 200);
            let base = props::gen::sdk_context();
            let t = std::time::Instant::now();
            for _ in 0..200 {
                let c = base.clone();
                std::hint::black_box(&c);
            }
            println!("context clone: {:?} per call", t.elapsed() / 200);
            let t = std::time::Instant::now();
            for _ in 0..200 {
                let mut c = base.clone();
                sim::reset(None);
                sim::decorate(&mut c.commands);
                std::hint::black_box(&c);
            }
            println!("clone+decorate: {:?} per call", t.elapsed() / 200);
            for kb in [64usize, 256, 1024, 2048, 8192, 16384] {
                let t = std::time::Instant::now();
                for _ in 0..200 {
                    let h = std::thread::Builder::new().stack_size(kb << 10).spawn(|| 1).unwrap();
                    let _ = h.join();
                }
                println!("thread spawn+join, {} KiB stack: {:?} per call", kb, t.elapsed() / 200);
            }
            0
        }
        "list" => {
            for p in props::all() {
                println!("{}", p.id());
            }
            0
        }
        "worker" => {
            let prop = match args.get(2).and_then(|id| props::by_id(id)) {
                Some(p) => p,
                None => return usage(),
            };
            let id = arg_value(&args, "--id").and_then(|v| v.parse().ok()).unwrap_or(0);
            let jail = arg_value(&args, "--jail").map(PathBuf::from);
            let duck = arg_value(&args, "--duck").map(PathBuf::from);
            let avoid = arg_value(&args, "--avoid").map(|s| s.split(',').map(|x| x.to_string()).collect()).unwrap_or_default();
            worker::worker_main(prop, id, jail, duck, avoid)
        }
        "check" => {
            let prop = match args.get(2).and_then(|id| props::by_id(id)) {
                Some(p) => p,
                None => {
                    eprintln!("unknown property");
                    return 2;
                }
            };
            let tier = arg_value(&args, "--tier").or_else(|| std::env::var("VERIF_TIER").ok()).unwrap_or_else(|| "quick".to_string());
            if tier != "quick" && tier != "thorough" {
                return usage();
            }
            let seed = arg_value(&args, "--seed")
                .or_else(|| std::env::var("VERIF_SEED").ok())
                .and_then(|v| v.trim().parse::<u64>().ok())
                .unwrap_or(1);
            let workers = arg_value(&args, "--workers")
                .and_then(|v| v.parse().ok())
                .unwrap_or_else(|| std::thread::available_parallelism().map(|n| n.get()).unwrap_or(4).min(16));
            let opts = driver::CheckOpts {
                tier,
                seed,
                runs: arg_value(&args, "--runs").and_then(|v| v.parse().ok()),
                workers,
                duck: arg_value(&args, "--duck").map(PathBuf::from),
                from: arg_value(&args, "--from").and_then(|v| v.parse().ok()).unwrap_or(0),
            };
            println!("dsim: property={} tier={} VERIF_SEED={} workers={}", prop.id(), opts.tier, opts.seed, opts.workers);
            driver::check(prop, opts)
        }
        "replay" => {
            let path = match args.get(2) {
                Some(p) => p.clone(),
                None => return usage(),
            };
            let file: serde_json::Value = match std::fs::read_to_string(&path).ok().and_then(|t| serde_json::from_str(&t).ok()) {
                Some(v) => v,
                None => {
                    eprintln!("cannot read {}", path);
                    return 2;
                }
            };
            let prop = match file["property"].as_str().and_then(props::by_id) {
                Some(p) => p,
                None => {
                    eprintln!("replay file names no known property");
                    return 2;
                }
            };
            driver::replay(prop, &path, arg_value(&args, "--duck").map(PathBuf::from))
        }
        _ => usage(),
    }
}

fn main() {
    std::process::exit(real_main());
}
