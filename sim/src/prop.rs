//! The interface every property module implements, and the outcome of one run.

use crate::rng::Rng;
use crate::sim::{self, Event};
use serde::{Deserialize, Serialize};
use serde_json::Value;
use std::collections::BTreeMap;
use std::path::PathBuf;

#[derive(Serialize, Deserialize, Clone, Debug, PartialEq)]
#[serde(tag = "v")]
pub enum Verdict {
    #[serde(rename = "pass")]
    Pass,
    #[serde(rename = "fail")]
    Fail { class: String, detail: String },
    /// the run could not decide (e.g. step budget hit in a looping program)
    #[serde(rename = "inc")]
    Inconclusive { reason: String },
}

#[derive(Serialize, Deserialize, Clone, Debug)]
pub struct Outcome {
    pub verdict: Verdict,
    pub log: Vec<Event>,
    pub nontrivial: bool,
    pub trace_hash: u64,
    pub steps: u64,
    pub fired: BTreeMap<String, u64>,
    pub probes: BTreeMap<String, u64>,
}

impl Outcome {
    /// Build the outcome from the thread-local simulator state of the finished run.
    pub fn collect(verdict: Verdict, fault_config: bool) -> Outcome {
        let redact = sim::redact_prefix();
        let verdict = match (&redact, verdict) {
            (Some(p), Verdict::Fail { class, detail }) => Verdict::Fail { class: class.replace(p.as_str(), ""), detail: detail.replace(p.as_str(), "") },
            (_, v) => v,
        };
        sim::with_core(|c| {
            let mut log = std::mem::take(&mut c.log);
            if let Some(p) = &redact {
                // not chrooted: strip the worker-specific jail prefix so that logs stay comparable
                if let Ok(text) = serde_json::to_string(&log) {
                    if let Ok(l) = serde_json::from_str(&text.replace(p.as_str(), "")) {
                        log = l;
                    }
                }
            }
            let steps = sim::count_steps(&log);
            let fault_seen = log.iter().any(|e| match e {
                Event::Fault { .. } | Event::Halt { .. } => true,
                Event::Write { res, .. } => res != "ok",
                _ => false,
            });
            let nontrivial = steps >= 3 && (!fault_config || fault_seen);
            Outcome {
                verdict,
                trace_hash: sim::abstract_trace_hash(&log),
                nontrivial,
                steps,
                fired: std::mem::take(&mut c.fired),
                probes: std::mem::take(&mut c.probes),
                log,
            }
        })
    }
    pub fn digest(&self) -> u64 {
        let v = serde_json::to_string(&self.verdict).unwrap_or_default();
        sim::log_digest(&self.log) ^ crate::rng::fnv1a(v.as_bytes())
    }
}

pub struct WorkerEnv {
    pub worker_id: usize,
    /// absolute path (as seen by this process) of the directory in which runs create r<i>/
    pub jail_root: PathBuf,
    pub chrooted: bool,
    pub duck: Option<PathBuf>,
    /// matchers of known findings for this property: the generators keep the main stream out of them
    pub avoid: Vec<String>,
}

pub struct PropInfo {
    pub level: &'static str,
    pub rule: &'static str,
    pub real: &'static [&'static str],
    pub stub: &'static [&'static str],
    pub assumptions: &'static [&'static str],
    pub needs_jail: bool,
    pub needs_duck: bool,
    /// probes that a thorough run is expected to hit at least once
    pub expected_probes: &'static [&'static str],
}

pub trait Prop: Sync + Send {
    fn id(&self) -> &'static str;
    fn info(&self) -> PropInfo;
    /// number of runs per tier
    fn runs(&self, tier: &str) -> u64;
    /// `rng` is seeded with the run's sub-seed; the case must contain everything the run needs
    fn generate(&self, rng: &mut Rng, avoid: &[String]) -> Value;
    /// executed on a fresh thread whose entropy stream is already seeded from case["entropy"]
    fn execute(&self, case: &Value, env: &WorkerEnv) -> Outcome;
    /// simpler candidate cases, most aggressive first
    fn shrink(&self, case: &Value) -> Vec<Value>;
    /// called once on the worker's main thread before any run: build lazily initialised tables here, never
    /// inside a run's thread (it would shift that thread's hash-key counter)
    fn warm_up(&self) {}
    /// does (case, class, detail) fall under the known finding named `matcher`?
    fn known_match(&self, _matcher: &str, _case: &Value, _class: &str, _detail: &str) -> bool {
        false
    }
}

pub fn entropy_of(case: &Value) -> u64 {
    case.get("entropy").and_then(|v| v.as_u64()).unwrap_or(0)
}
