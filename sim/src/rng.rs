//! SplitMix64-based PRNG. Every random choice of a run derives from one u64.

#[derive(Clone, Debug)]
pub struct Rng {
    state: u64,
}

pub fn mix64(mut z: u64) -> u64 {
    z = z.wrapping_add(0x9E37_79B9_7F4A_7C15);
    z = (z ^ (z >> 30)).wrapping_mul(0xBF58_476D_1CE4_E5B9);
    z = (z ^ (z >> 27)).wrapping_mul(0x94D0_49BB_1331_11EB);
    z ^ (z >> 31)
}

pub fn fnv1a(bytes: &[u8]) -> u64 {
    let mut h: u64 = 0xcbf2_9ce4_8422_2325;
    for b in bytes {
        h ^= *b as u64;
        h = h.wrapping_mul(0x0000_0100_0000_01B3);
    }
    h
}

/// sub-seed of run `i` of property `prop` under VERIF_SEED `seed`
pub fn sub_seed(seed: u64, prop: &str, i: u64) -> u64 {
    mix64(mix64(seed ^ fnv1a(prop.as_bytes())) ^ mix64(i.wrapping_mul(0xD6E8_FEB8_6659_FD93)))
}

impl Rng {
    pub fn new(seed: u64) -> Rng {
        Rng { state: seed }
    }
    pub fn next_u64(&mut self) -> u64 {
        self.state = self.state.wrapping_add(0x9E37_79B9_7F4A_7C15);
        let mut z = self.state;
        z = (z ^ (z >> 30)).wrapping_mul(0xBF58_476D_1CE4_E5B9);
        z = (z ^ (z >> 27)).wrapping_mul(0x94D0_49BB_1331_11EB);
        z ^ (z >> 31)
    }
    /// uniform in [0, n) ; n > 0
    pub fn below(&mut self, n: u64) -> u64 {
        if n == 0 {
            return 0;
        }
        self.next_u64() % n
    }
    pub fn range(&mut self, lo: i64, hi_incl: i64) -> i64 {
        lo + self.below((hi_incl - lo + 1) as u64) as i64
    }
    pub fn usize(&mut self, n: usize) -> usize {
        self.below(n as u64) as usize
    }
    /// true with probability num/den
    pub fn chance(&mut self, num: u64, den: u64) -> bool {
        self.below(den) < num
    }
    pub fn pick<'a, T>(&mut self, items: &'a [T]) -> &'a T {
        &items[self.usize(items.len())]
    }
    pub fn fork(&mut self) -> Rng {
        Rng::new(self.next_u64())
    }
    /// weighted choice; returns index
    pub fn weighted(&mut self, weights: &[u32]) -> usize {
        let total: u64 = weights.iter().map(|w| *w as u64).sum();
        let mut x = self.below(total.max(1));
        for (i, w) in weights.iter().enumerate() {
            if x < *w as u64 {
                return i;
            }
            x -= *w as u64;
        }
        weights.len() - 1
    }
    pub fn shuffle<T>(&mut self, v: &mut Vec<T>) {
        for i in (1..v.len()).rev() {
            let j = self.usize(i + 1);
            v.swap(i, j);
        }
    }
}
